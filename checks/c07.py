"""C07  MPO construction and measurements realise Jordan-Wigner operators.

Reference-model monitor.  The oracle is vmon/jw.py: explicit dense Jordan-Wigner matrices built from Leg charges and
the dense on-site matrices of the operators (to_numpy) only.  Observed through the public API:

  mpo      generate_mpo(I, Hterms, f_map=...)  -> dense matrix of the MPO            vs  sum_t amp_t * prod JW(O)
  latex    Generator.mpo_from_latex(template, parameters)  -> dense matrix            vs  our own expansion of the template
  m1       measure_1site  (tensor / dict operators, sites None / int / list)          vs  <bra| JW(O_i) |ket>
  m2       measure_2site  (every bond pattern, explicit pairs i<j i=j i>j, dicts)     vs  <bra| JW(O_i) JW(P_j) |ket>
  mn       measure_nsite  (repeated sites, any order)                                 vs  <bra| prod JW |ket>
  rdm      rdm(psi, *sites): tr(rho * JW_k(matrix units)) for all / many units        vs  <psi| JW_N(matrix units) |psi>
  sample   sample(..., return_probabilities=True): each returned probability          vs  Born probability in the dense state
  algebra  on-site algebra of every predefined operator class in every symmetry (CAR, spin commutators, n = c+ c)
  genhist  one Generator used repeatedly: gen.I() / mpo_from_latex / random_mps / random_mpo interleaved with in-place
           edits (canonize_, truncate_, site assignment) of the objects it returned; every later result vs the dense truth

The dense state is the one *observed* (to_tensor -> to_numpy over ops.space()), so the construction of the random
states (random_mps / product superpositions / canonisation / scalar factors) is not trusted.
"""
from __future__ import annotations

import itertools

import numpy as np

from vmon import groups as G
from vmon import jw

PROP = "C07"
RULE = ("case = (kind in {mpo, latex, m1, m2, mn, rdm, sample, algebra, genhist = Generator history with in-place edits of returned objects}) x (operator family = predefined class x symmetry "
        "x fermionic flag; 20 distinct, the two most sign-sensitive listed twice) x random structure: chain length 2..6 (7 in thorough), Hterm lists of 1-6 terms with "
        "positions of length 1-4 in arbitrary order with repetitions, operators drawn from the whole family incl. charged ones, "
        "int/float/complex amplitudes, equal total charge (labelled must-reject cases with mixed charge), random f_map, identity "
        "given as MPO / tensor / list; LaTeX templates with random parameters and site maps; random states of every admissible "
        "total charge (bra != ket when the operator changes the charge), bond patterns, dict operators, site tuples, projector "
        "bases.  distinct = hash of (kind, family, N, positions/operator names/f_map or bond pattern/sites/basis kind ...); "
        "non-trivial = at least one value/matrix was compared with the dense Jordan-Wigner reference and the reference was non-zero")
ASSUMPTIONS = ["vmon/jw.py (strings diag((-1)^{t.n}) over fermionic components on fermionically earlier sites, product = matrix "
               "product in the order written) is the convention the docstrings describe",
               "to_numpy of rank-2 on-site operators and to_tensor().to_numpy(legs=ops.space()) of an MPS/MPO are faithful "
               "observation functions (cross-validated by C01/C06)",
               "NumPy dense linear algebra on dimension <= 4096 is the truth",
               "rdm(psi, *sites): leg pairs and fermionic order follow the order of the `sites` arguments (tests/mps/test_measurement.py::test_rdm)",
               "sample: only complete orthonormal local bases are used, so the normalised conditional probabilities are Born probabilities"]

FAMS = (
    ("Spin12", "dense", {}), ("Spin12", "Z2", {}), ("Spin12", "U1", {}),
    ("Spin1", "dense", {}), ("Spin1", "Z3", {}), ("Spin1", "U1", {}),
    ("SpinlessFermions", "Z2", {}), ("SpinlessFermions", "U1", {}),
    ("SpinfulFermions", "Z2", {}), ("SpinfulFermions", "U1", {}), ("SpinfulFermions", "U1xU1", {}),
    ("SpinfulFermions", "U1xU1xZ2", {}), ("SpinfulFermions", "U1xU1", {"fermionic": (True, True)}),
    ("SpinfulFermions_tJ", "Z2", {}), ("SpinfulFermions_tJ", "U1", {}), ("SpinfulFermions_tJ", "U1xU1", {}),
    ("SpinfulFermions_tJ", "U1xU1xZ2", {}), ("SpinfulFermions_tJ", "U1xU1", {"fermionic": (True, True)}),
    ("Qdit", "dense", {"d": 2}), ("Qdit", "dense", {"d": 3}),
    ("SpinlessFermions", "U1", {}), ("SpinfulFermions", "U1xU1xZ2", {}),      # the two most sign-sensitive families twice
)
LATEX_FAMS = tuple(i for i, f in enumerate(FAMS) if f[0] != "Qdit")
# 19 entries: coprime with the shard counts (8 / 16), so every shard sees every kind and every family
KINDS = ("mpo", "m2", "mpo", "mn", "latex", "m1", "mpo", "rdm", "m2", "mpo", "sample", "mn", "mpo", "algebra", "m2", "latex", "m1",
         "genhist", "genhist")

NAMES = {
    "Spin12": ("I", "x", "y", "iy", "z", "sx", "sy", "isy", "sz", "sp", "sm"),
    "Spin1": ("I", "sx", "sy", "isy", "sz", "sp", "sm"),
    "SpinlessFermions": ("I", "n", "c", "cp"),
    "SpinfulFermions": ("I", "nu", "nd", "cu", "cd", "cpu", "cpd", "Sz", "Sp", "Sm"),
    "SpinfulFermions_tJ": ("I", "nu", "nd", "cu", "cd", "cpu", "cpd", "Sz", "Sp", "Sm", "h"),
    "Qdit": ("I",),
}
# documented: these operators cannot be defined in these symmetries (constructor raises YastnError)
UNDEFINED = {("Spin12", "U1"): {"x", "y", "iy", "sx", "sy", "isy"},
             ("Spin1", "Z3"): {"sx", "sy", "isy"}, ("Spin1", "U1"): {"sx", "sy", "isy"}}

TOL_MPO = 1e-10      # * sum_t |amp_t| prod ||O||      (observed ~5e-15; default opts_svd tol=1e-13 is a *relative* compression,
                     #   so amplitudes spanning 1e-12..1e12 are judged relative to the dominant terms)
TOL_MPO_EXACT = 1e-11  # same scale, when a non-truncating opts_svd ({} or tol=0) is passed: only SVD rounding remains
TOL_VAL = 1e-11      # * S(bra) S(ket) prod ||O||, S = max(||psi||, prod of site-tensor norms)  (observed <= ~1e-14)
TOL_PROB = 1e-10     # absolute, probabilities <= 1    (observed ~2e-15)
TOL_ALG = 1e-13      # absolute, exact small matrices

K_ZERO = "reject:generate_mpo:zero-onsite-product"
K_CPLX = "exception:generate_mpo:complex-operator-real-amplitudes"
K_LATEX_NONE = "exception:mpo_from_latex:parameters-default-None"
K_M2_EMPTY_PAIRS = "exception:measure_2site:empty-pairs"
K_M2_EMPTY_DICT = "exception:measure_2site:empty-operator-dict"


def plan(tier):
    if tier == "thorough":
        return {"cases": len(KINDS) * len(FAMS) * 32, "shards": 16, "budget_s": 1200}
    return {"cases": len(KINDS) * len(FAMS) * 6, "shards": 8, "budget_s": 200}


def floors(tier):
    k = 4 if tier == "thorough" else 1
    return {"evaluations": 700 * k, "mpo_compared": 150 * k, "latex_compared": 60 * k, "m1_values": 100 * k,
            "m2_values": 300 * k, "mn_values": 60 * k, "rdm_elements": 1000 * k, "sample_probs": 60 * k,
            "algebra_relations": 300 * k, "terms_repeated_sites": 20 * k, "terms_descending": 20 * k,
            "m2_pairs_i_gt_j": 20 * k, "m2_pairs_i_eq_j": 20 * k, "m2_pairs_i_lt_j": 20 * k,
            "fermionic_cases": 200 * k, "bosonic_cases": 200 * k, "mpo_fmap_cases": 40 * k,
            "string_sensitive": 150 * k, "mpo_string_sensitive": 40 * k, "mpo_fmap_sensitive": 10 * k,
            "mixed_charge_rejected": 3 * k, "bra_ne_ket_cases": 50 * k, "nonzero_references": 900 * k,
            "mn_repeated_sites": 20 * k, "m2_dict_cases": 10 * k, "rdm_unordered_sites": 5 * k,
            "m1_dict_cases": 25 * k, "m1_dict_unsorted": 20 * k, "m1_dict_descending_adjacent": 10 * k,
            "m1_dict_extra_keys": 5 * k, "m2_dict_unsorted": 10 * k, "m2_pairs_lists_unsorted": 15 * k,
            "m2_pairs_lists_with_repeats": 5 * k, "rdm_factor_cases": 20 * k,
            # extreme scales / omitted optional arguments / falsy values
            "mpo_amp_style:wide": 15 * k, "mpo_amp_style:zeros": 15 * k, "mpo_amp_style:tiny": 8 * k, "mpo_amp_style:huge": 8 * k,
            "mpo_amp_style:tiny-imag": 8 * k, "mpo_nontruncating": 30 * k, "mpo_zero_amplitude_cases": 10 * k,
            "mpo_all_optional_omitted": 20 * k, "terms_identity": 15 * k, "mpo_no_terms": 4 * k, "state_site_scaled": 50 * k,
            "m1_sites_empty": 3 * k, "m1_site0_int": 4 * k, "mn_no_operators": 3 * k, "mn_sites_omitted_rejected": 1 * k,
            "m2_empty_pairs": 2 * k, "m2_empty_dict": 2 * k, "sample_call:defaults": 4 * k, "sample_call:number=0": 3 * k,
            "sample_configs_checked": 10 * k, "latex_params:zero": 8 * k, "latex_params:wide": 6 * k,
            "latex_ctor:ctor-all": 4 * k, "latex_ctor:ctor-overridden": 4 * k,
            # Generator histories
            "genhist_cases": 60 * k, "generator_histories_with_inplace_edit_of_returned_I": 30 * k,
            "genhist_latex_checks": 150 * k, "genhist_I_checks": 100 * k, "genhist_random_mps": 8 * k, "genhist_random_mpo": 8 * k}


# ------------------------------------------------------------------ operator families

class Fam:
    """One predefined operator class in one symmetry: yastn operators + their dense local matrices and charges."""

    def __init__(self, fam_idx, nprng):
        import yastn
        cls, sym, kw = FAMS[fam_idx]
        self.cls, self.symarg, self.kw = cls, sym, dict(kw)
        self.ops = getattr(yastn.operators, cls)(sym=sym, **kw)
        self.cfg = self.ops.config
        self.sym = G.sym_name(self.cfg.sym)
        self.fer = self.cfg.fermionic
        self.fermionic = any(G.fmask(self.sym, self.fer))
        self.space = self.ops.space()
        self.charges = jw.state_charges(self.space)
        self.d = len(self.charges)
        self.zero = G.zero(self.sym)
        self.tag = cls + ":" + sym + "".join(f":{k}={v}" for k, v in sorted(kw.items()))
        self.named = {}
        o = self.ops
        for name in NAMES[cls]:
            if name in UNDEFINED.get((cls, sym), ()):
                try:
                    getattr(o, name)()
                except yastn.YastnError:
                    continue
                raise AssertionError(f"{cls}({sym}).{name}() documented as undefined but was built")
            if cls in ("SpinfulFermions", "SpinfulFermions_tJ") and name[-1] in "ud" and name[:-1] in ("n", "c", "cp"):
                self.named[name] = getattr(o, name[:-1])(name[-1])
            else:
                self.named[name] = getattr(o, name)()
        if cls == "Qdit":       # custom (bosonic, chargeless) operators: Hterm accepts any rank-2 tensor matching I
            d = self.d
            for name, cplx in (("A", False), ("B", True), ("C", False)):
                val = nprng.standard_normal((d, d)) + (1j * nprng.standard_normal((d, d)) if cplx else 0)
                t = yastn.Tensor(config=self.cfg, s=(1, -1), dtype="complex128" if cplx else "float64")
                t.set_block(Ds=(d, d), val=val)
                self.named[name] = t
        self.named["zero"] = 0 * self.named["I"]          # an operator equal to zero (blocks present, values 0)
        self.loc = {k: jw.local(v, self.space) for k, v in self.named.items()}
        self.opnorm = {k: max(1.0, float(np.linalg.norm(m, 2))) for k, (m, _) in self.loc.items()}
        self.names = list(self.named)
        self.charged = [k for k in self.names if self.loc[k][1] != self.zero]
        self.neutral = [k for k in self.names if self.loc[k][1] == self.zero and k not in ("I", "zero")]
        self.weighted = self.charged * 3 + self.neutral * (2 if self.charged else 3) + ["I"]
        self.weighted_z = self.weighted * 2 + ["zero"]       # measurements: identity and zero operators are legal inputs
        self.cplx = {k for k, v in self.named.items() if v.yastn_dtype == "complex128"}
        self.zero_pairs = [(a, b) for a in self.names for b in self.names
                           if np.any(self.loc[a][0]) and np.any(self.loc[b][0]) and not np.any(self.loc[a][0] @ self.loc[b][0])]

    def I_mpo(self, N):
        import yastn.tn.mps as mps
        return mps.product_mpo(self.named["I"], N)

    def model(self, N, f_order=None, bosonic=False):
        return jw.Model([self.charges] * N, self.sym, False if bosonic else self.fer, None, f_order)

    def factors(self, names, sites):
        return [(self.loc[nm][0], self.loc[nm][1], s) for nm, s in zip(names, sites)]

    def charge(self, names):
        return G.add(self.sym, [self.loc[nm][1] for nm in names]) if names else self.zero

    def basis_vec(self, i, val=None, dtype="float64"):
        """yastn rank-1 vector living in the charge sector of basis state i (default: the basis state itself)."""
        import yastn
        t = self.charges[i]
        idx = [j for j, c in enumerate(self.charges) if c == t]
        D = len(idx)
        if val is None:
            val = np.zeros(D)
            val[idx.index(i)] = 1.0
        v = yastn.Tensor(config=self.cfg, s=(1,), n=t, dtype=dtype)
        v.set_block(ts=(t,), Ds=(D,), val=val)
        return v

    def sectors(self):
        out = {}
        for j, c in enumerate(self.charges):
            out.setdefault(c, []).append(j)
        return out


def reachable(F, N):
    loc = sorted(set(F.charges))
    cur = {F.zero}
    for _ in range(N):
        cur = {G.add(F.sym, [a, b]) for a in cur for b in loc}
    return cur


def draw_N(rng, d, cap, nmax):
    top = 2
    while top + 1 <= nmax and d ** (top + 1) <= cap:
        top += 1
    return rng.randint(2, top)


# ------------------------------------------------------------------ comparisons

def cmp_matrix(ctx, key, name, got, exp, allowed, wit):
    got, exp = np.asarray(got), np.asarray(exp)
    if got.shape != exp.shape:
        ctx.violation(key + ":shape", f"dense shape {got.shape} expected {exp.shape}", wit)
        return False
    err = float(np.max(np.abs(got - exp))) if exp.size else 0.0
    if not ctx.margin(name, err, allowed):
        i = np.unravel_index(int(np.argmax(np.abs(got - exp))), exp.shape) if err == err else (0, 0)
        ctx.violation(key, f"dense matrix differs from the Jordan-Wigner reference by {err:.3e} (allowed {allowed:.3e}); "
                           f"worst element {tuple(int(x) for x in i)}: got {got[i]} expected {exp[i]}", wit)
        return False
    return True


def cmp_value(ctx, key, name, got, exp, allowed, wit):
    try:
        g = complex(got)
    except Exception:
        ctx.violation(key + ":type", f"returned {type(got).__name__} where a number was expected", wit)
        return False
    err = abs(g - complex(exp))
    if not ctx.margin(name, err, allowed):
        ctx.violation(key, f"value {g} differs from the dense Jordan-Wigner expectation {complex(exp)} by {err:.3e} "
                           f"(allowed {allowed:.3e})", wit)
        return False
    return True


def note_ref(ctx, exp, exp_nostring=None, scale=1.0):
    """Reach bookkeeping: non-zero reference; reference that changes when the strings are dropped."""
    if abs(exp) > 1e-9 * scale:
        ctx.count("nonzero_references")
    if exp_nostring is not None and abs(exp - exp_nostring) > 1e-7 * scale:
        ctx.count("string_sensitive")


# ------------------------------------------------------------------ random states

def make_state(ctx, F, N, n, rng, allow_scale=True):
    """Random MPS of total charge n (random_mps with a seeded backend RNG, or a superposition of product states)."""
    import yastn
    import yastn.tn.mps as mps
    psi, how = None, None
    dtype = rng.choice(("float64", "complex128"))
    if rng.random() < 0.8:
        I = F.I_mpo(N)
        for _ in range(3):
            F.cfg.backend.random_seed(rng.randrange(2 ** 31))
            try:
                psi = mps.random_mps(I, n=(None if F.sym == "dense" else n), D_total=rng.choice((1, 2, 3, 4, 6, 8)),
                                     sigma=rng.choice((1, 2)), dtype=dtype)
                how = "random_mps"
                ctx.count("state_random_mps")
                break
            except yastn.YastnError as e:     # documented: "Random mps is a zero state ... try running again"
                if "zero state" not in str(e):
                    raise
                ctx.count("random_mps_zero_state")
    if psi is None:
        confs = []
        for _ in range(rng.randint(1, 4)):
            for _ in range(300):
                c = [rng.randrange(F.d) for _ in range(N)]
                if G.add(F.sym, [F.charges[i] for i in c]) == tuple(n):
                    confs.append(c)
                    break
        if not confs:
            for c in itertools.product(range(F.d), repeat=N):
                if G.add(F.sym, [F.charges[i] for i in c]) == tuple(n):
                    confs.append(list(c))
                    break
        psis = [mps.product_mps([F.basis_vec(i) for i in c]) for c in confs]
        amps = [rng.uniform(0.3, 1.5) * rng.choice((1, -1)) * (1j if dtype == "complex128" and rng.random() < 0.5 else 1)
                for _ in confs]
        if len(psis) > 1:
            psi = mps.add(*psis, amplitudes=amps)
        else:
            psi = amps[0] * psis[0] if allow_scale else psis[0]
        how = "product_sum"
        ctx.count("state_product_sum")
    post = rng.choice(("none", "none", "first", "last", "scaled", "first+scaled"))
    if "first" in post:
        psi.canonize_(to="first")
    if "last" in post:
        psi.canonize_(to="last")
    if "scaled" in post and allow_scale:
        psi = rng.choice((0.5, -1.7, 0.3 + 0.8j, 2.0)) * psi
    vec = jw.mps_vector(psi, [F.space] * N)
    if rng.random() < 0.12:
        # one site tensor scaled by an extreme but legal factor: every measure_* is bilinear in the states, to_tensor linear;
        # the dense truth is OUR scaling of the vector observed before (no reliance on to_tensor at the extreme scale)
        c = rng.choice((1e20, 1e-20, -1e20, -1e-20, 1e20, 1e-20))
        n0 = rng.randrange(N)
        psi[n0] = c * psi[n0]
        vec = c * vec
        post += f":site{n0}x{c:g}"
        ctx.count("state_site_scaled")
    return psi, vec, how + ":" + post


def state_scale(psi, vec):
    """Magnitude against which rounding errors of contractions of psi are measured: ||psi|| for a well-conditioned MPS,
    the product of the site-tensor norms when the site tensors cancel (un-normalised random_mps can have ||psi|| << that)."""
    amp = abs(psi.factor)
    for n in range(psi.N):
        amp *= float(psi[n].norm())
    return max(float(np.linalg.norm(vec)), amp)


def pick_charges(F, N, ntot, rng):
    """(ket charge, bra charge, matched?) with bra = ket + ntot when possible."""
    reach = sorted(reachable(F, N))
    good = [t for t in reach if G.add(F.sym, [t, ntot]) in set(reach)]
    if good and rng.random() < 0.93:
        t = rng.choice(good)
        return t, G.add(F.sym, [t, ntot]), True
    t, b = rng.choice(reach), rng.choice(reach)
    return t, b, G.add(F.sym, [t, ntot]) == b


def bra_ket(ctx, F, N, ntot, rng, allow_scale=True):
    tk, tb, matched = pick_charges(F, N, ntot, rng)
    ket, kv, hk = make_state(ctx, F, N, tk, rng, allow_scale)
    if tb == tk and rng.random() < 0.5:
        bra, bv, hb = ket, kv, "same"
    else:
        bra, bv, hb = make_state(ctx, F, N, tb, rng, allow_scale)
        ctx.count("bra_ne_ket_cases")
    if not matched:
        ctx.count("charge_mismatch_cases")
    scale = state_scale(bra, bv) * state_scale(ket, kv)
    return bra, bv, ket, kv, scale, {"ket_charge": tk, "bra_charge": tb, "ket": hk, "bra": hb}


def count_flavour(ctx, F):
    ctx.count("fermionic_cases" if F.fermionic else "bosonic_cases")
    ctx.note("families", sorted(set(ctx.notes.get("families", [])) | {F.tag}))


# ------------------------------------------------------------------ Hterm generation

def draw_term(F, N, rng, k=None):
    if k is None and rng.random() < 0.04:
        return [], []                               # Hterm without positions / operators: amplitude * identity
    k = k or rng.choice((1, 1, 2, 2, 2, 3, 3, 4, 4))
    style = rng.choice(("free", "free", "repeat", "desc"))
    pos = [rng.randrange(N) for _ in range(k)]
    if style == "repeat" and k >= 2:
        pos[rng.randrange(1, k)] = pos[0]
    if style == "desc":
        pos.sort(reverse=True)
    names = [rng.choice(F.weighted) for _ in range(k)]
    return pos, names


def onsite_zero(F, pos, names):
    by = {}
    for s, nm in zip(pos, names):
        by[s] = by[s] @ F.loc[nm][0] if s in by else F.loc[nm][0]
    return any(not np.any(v) for v in by.values())


def draw_term_with_charge(F, N, rng, T, allow_zero=False):
    for _ in range(60):
        pos, names = draw_term(F, N, rng)
        if F.charge(names) != T:
            if not names:
                continue
            base = F.charge(names[:-1])
            cands = [nm for nm in F.names if G.add(F.sym, [base, F.loc[nm][1]]) == T]
            if not cands:
                continue
            names[-1] = rng.choice(cands)
        if allow_zero or not onsite_zero(F, pos, names):
            return pos, names
    return None


AMP_STYLES = ("real",) * 7 + ("mixed",) * 7 + ("wide", "wide", "tiny", "huge", "zeros", "zeros", "tiny-imag")


def make_amps(rng, style, n):
    """Amplitudes of one generate_mpo call.  wide: 1e-12..1e12 in one call; tiny/huge: all ~1e-12 / ~1e12;
    zeros: some (possibly all) exactly 0 / 0.0 / 0j; tiny-imag: complex with imaginary part ~1e-14 of the real part."""
    if style in ("real", "mixed"):
        return [make_amp(rng, style) for _ in range(n)]
    out = []
    for _ in range(n):
        a = make_amp(rng, "mixed" if rng.random() < 0.3 else "real")
        if style == "wide":
            a = a * 10.0 ** rng.uniform(-12, 12)
        elif style == "tiny":
            a = a * 1e-12
        elif style == "huge":
            a = a * 1e12
        elif style == "zeros" and rng.random() < 0.5:
            a = rng.choice((0, 0.0, 0j, -0.0))
        elif style == "tiny-imag":
            a = complex(a.real if isinstance(a, complex) else a, rng.choice((1, -1)) * 1e-14 * abs(a))
        out.append(a)
    return out


def make_amp(rng, style):
    kind = rng.choice(("float", "float", "int", "complex")) if style == "mixed" else rng.choice(("float", "float", "int"))
    if kind == "int":
        return rng.choice((1, -1, 2, -3))
    if kind == "float":
        return rng.choice((1, -1)) * rng.uniform(0.2, 2.0)
    return complex(rng.uniform(-1.5, 1.5), rng.choice((1, -1)) * rng.uniform(0.2, 1.5))


def case_mpo(ctx, F, rng, nprng):
    import yastn
    import yastn.tn.mps as mps
    thorough = ctx.tier == "thorough"
    N = draw_N(rng, F.d, 1024 if thorough else 256, 7 if thorough else 6)
    nterms = rng.choice((1, 1, 2, 2, 3, 3, 4, 5, 6))
    mode = "plain"
    if rng.random() < 0.025:
        return case_mpo_no_terms(ctx, F, rng, N)
    if nterms > 1:
        r = rng.random()
        if r < 0.08 and F.charged:
            mode = "mixed-charge"
        elif r < 0.14 and F.zero_pairs:
            mode = "zero-onsite"
    # ---- terms
    specs = []
    for _ in range(200):
        pos, names = draw_term(F, N, rng)
        if mode == "zero-onsite":
            s = rng.randrange(N)
            j = rng.randint(0, len(pos))
            if rng.random() < 0.3:                  # an operator that is itself zero
                pos, names = pos[:j] + [s] + pos[j:], names[:j] + ["zero"] + names[j:]
            else:                                   # two non-zero operators multiplying to zero at one site
                a, b = rng.choice(F.zero_pairs)
                pos, names = pos[:j] + [s, s] + pos[j:], names[:j] + [a, b] + names[j:]
            pos, names = pos[:4], names[:4]
            if not onsite_zero(F, pos, names):
                continue
            break
        if not onsite_zero(F, pos, names):
            break
    else:
        raise AssertionError("could not draw a first term")
    specs.append((pos, names))
    T = F.charge(names)
    while len(specs) < nterms:
        t = draw_term_with_charge(F, N, rng, T, allow_zero=False)
        if t is None:                       # fallback: a reshuffled copy of the first term (same total charge)
            pos, names = list(specs[0][0]), list(specs[0][1])
            q = list(range(len(pos)))
            rng.shuffle(q)
            pos, names = [pos[i] for i in q], [names[i] for i in q]
            if onsite_zero(F, pos, names) and mode != "zero-onsite":
                pos, names = list(specs[0][0]), list(specs[0][1])
            t = (pos, names)
        specs.append(t)
    if mode == "mixed-charge":
        for _ in range(200):
            pos, names = draw_term(F, N, rng)
            if F.charge(names) != T and not onsite_zero(F, pos, names):
                specs[rng.randrange(1, nterms)] = (pos, names)
                break
        else:
            mode = "plain"
    if mode == "zero-onsite":
        rng.shuffle(specs)
    style = rng.choice(AMP_STYLES)
    amps = make_amps(rng, style, len(specs))
    has_cplx_op = any(nm in F.cplx for _, names in specs for nm in names)
    if has_cplx_op and nterms > 1 and not any(isinstance(a, complex) for a in amps):
        if mode == "plain" and rng.random() < 0.2:
            mode = "complex-op-real-amp"              # labelled sub-case (see K_CPLX)
        else:
            amps[rng.randrange(nterms)] = make_amp(rng, "mixed") * (1 + 0j) + 0.3j
    # ---- call
    f_map = None
    if rng.random() < 0.5:
        f_map = list(range(N))
        rng.shuffle(f_map)
        if rng.random() < 0.3:
            f_map = tuple(f_map)
    terms = []
    for a, (pos, names) in zip(amps, specs):
        if len(pos) == 1 and rng.random() < 0.3:
            terms.append(mps.Hterm(a, pos[0], F.named[names[0]]))       # documented short form (see tests)
        elif not pos and rng.random() < 0.5:
            terms.append(mps.Hterm(a) if rng.random() < 0.5 else mps.Hterm(amplitude=a))    # defaults: positions=(), operators=()
        else:
            seq = rng.choice((list, tuple))
            terms.append(mps.Hterm(a, seq(pos), seq(F.named[nm] for nm in names)))
    ikind = rng.choice(("mpo", "mpo", "tensor", "list"))
    I1 = F.named["I"]
    kw = {}
    if ikind == "mpo":
        Iarg = F.I_mpo(N)
    elif ikind == "tensor":
        Iarg, kw["N"] = I1, N
    else:
        Iarg, kw["N"] = [I1] * rng.choice((1, 2, N)), N
    if f_map is not None:
        kw["f_map"] = f_map
    r = rng.random()
    exact = False
    if r < 0.06:
        kw["opts_svd"] = {"tol": 1e-14}
    elif r < 0.20 or (style in ("wide", "zeros") and r < 0.45):
        kw["opts_svd"], exact = rng.choice(({}, {"tol": 0})), True      # non-truncating
    elif r < 0.25:
        kw["opts_svd"] = None                                            # the default, spelled out
    wit = {"family": F.tag, "N": N, "mode": mode, "f_map": f_map, "I": ikind, "amplitudes": style, "opts_svd": kw.get("opts_svd", "omitted"),
           "terms": [{"amplitude": a, "positions": p, "operators": nm} for a, (p, nm) in zip(amps, specs)]}
    sig = ("mpo", F.tag, N, mode, None if f_map is None else tuple(f_map), ikind,
           tuple((tuple(p), tuple(nm), type(a).__name__) for a, (p, nm) in zip(amps, specs)))
    count_flavour(ctx, F)
    ctx.count("mpo_mode:" + mode)
    ctx.count("mpo_amp_style:" + style)
    if exact:
        ctx.count("mpo_nontruncating")
    if any(a == 0 for a in amps):
        ctx.count("mpo_zero_amplitude_cases")
    if len(kw) == 0:
        ctx.count("mpo_all_optional_omitted")
    for pos, names in specs:
        ctx.count("terms_total")
        if not pos:
            ctx.count("terms_identity")
        if "zero" in names:
            ctx.count("terms_zero_operator")
        if len(set(pos)) < len(pos):
            ctx.count("terms_repeated_sites")
        if any(a > b for a, b in zip(pos, pos[1:])):
            ctx.count("terms_descending")
        if F.charge(names) != F.zero:
            ctx.count("terms_charged")
    if f_map is not None:
        ctx.count("mpo_fmap_cases")

    if mode == "mixed-charge":
        try:
            mps.generate_mpo(Iarg, terms, **kw)
        except yastn.YastnError:
            ctx.count("mixed_charge_rejected")
            ctx.case(sig, True, wit)
            return
        ctx.violation("missing-reject:generate_mpo:mixed-charge",
                      "terms of different total charge were accepted (a YastnError is promised)", wit)
        ctx.case(sig, True, wit)
        return
    if mode == "zero-onsite":
        try:
            O = mps.generate_mpo(Iarg, terms, **kw)
        except (yastn.YastnError, IndexError) as e:
            ctx.violation(K_ZERO, f"a term whose operators at one site multiply to zero makes generate_mpo raise "
                                  f"{type(e).__name__}: {e}", wit)
            ctx.case(sig, True, wit)
            return
    elif mode == "complex-op-real-amp":
        try:
            O = mps.generate_mpo(Iarg, terms, **kw)
        except TypeError as e:
            ctx.violation(K_CPLX, f"complex on-site operator with real amplitudes makes generate_mpo raise "
                                  f"{type(e).__name__}: {e}", wit)
            ctx.case(sig, True, wit)
            return
    else:
        O = mps.generate_mpo(Iarg, terms, **kw)
    # ---- reference
    f_order = None if f_map is None else jw.Model.f_order_from_map(f_map)
    M = F.model(N, f_order)
    tlist = [(a, F.factors(names, pos)) for a, (pos, names) in zip(amps, specs)]
    exp = M.sum_terms(tlist)
    scale = sum(abs(a) * float(np.prod([F.opnorm[nm] for nm in names])) for a, (_, names) in zip(amps, specs))
    if len(O) != N:
        ctx.violation("shape:generate_mpo", f"MPO has {len(O)} sites, expected {N}", wit)
        ctx.case(sig, True, wit)
        return
    got = jw.mpo_matrix(O, [F.space] * N)
    key = "value:generate_mpo" + (":f_map" if f_map is not None else "") + (":multi-term" if nterms > 1 else ":single-term")
    if style in ("wide", "tiny", "huge", "zeros", "tiny-imag"):
        key += ":amplitudes-" + style
    cmp_matrix(ctx, key, "generate_mpo" + (":nontruncating" if exact else ""), got, exp, (TOL_MPO_EXACT if exact else TOL_MPO) * scale, wit)
    ctx.count("mpo_compared")
    nz = bool(np.max(np.abs(exp)) > 1e-9 * scale) if scale > 0 else False
    if nz:
        ctx.count("nonzero_references")
    if F.fermionic and scale > 0:
        if np.max(np.abs(exp - F.model(N, f_order, bosonic=True).sum_terms(tlist))) > 1e-7 * scale:
            ctx.count("mpo_string_sensitive")
            ctx.count("string_sensitive")
        if f_map is not None and np.max(np.abs(exp - F.model(N).sum_terms(tlist))) > 1e-7 * scale:
            ctx.count("mpo_fmap_sensitive")
    ctx.case(sig, nz, wit)


def case_mpo_no_terms(ctx, F, rng, N):
    """terms omitted / None / empty: the repository tests (test_generate_mpo_basic) pin the result to the identity MPO."""
    import yastn.tn.mps as mps
    form = rng.choice(("omitted", "None", "[]", "()"))
    ikind = rng.choice(("mpo", "tensor", "list"))
    kw = {}
    if ikind == "mpo":
        Iarg = F.I_mpo(N)
    elif ikind == "tensor":
        Iarg, kw["N"] = F.named["I"], N
    else:
        Iarg = [F.named["I"]] * N                   # N omitted: taken from the length of the list
    if rng.random() < 0.3:
        kw["f_map"] = list(range(N))[::-1]
    args = {"omitted": (), "None": (None,), "[]": ([],), "()": ((),)}[form]
    wit = {"family": F.tag, "N": N, "terms": form, "I": ikind, "kwargs": sorted(kw)}
    count_flavour(ctx, F)
    O = mps.generate_mpo(Iarg, *args, **kw)
    got = jw.mpo_matrix(O, [F.space] * N) if len(O) == N else np.zeros((0, 0))
    cmp_matrix(ctx, "value:generate_mpo:no-terms-identity", "generate_mpo", got, np.eye(F.d ** N), TOL_MPO, wit)
    ctx.count("mpo_no_terms")
    ctx.count("nonzero_references")
    ctx.case(("mpo-no-terms", F.tag, N, form, ikind, tuple(sorted(kw))), True, wit)


# ------------------------------------------------------------------ LaTeX generator

def latex_symbols(F, rng):
    """Names (as exposed by ops.to_dict()) playing the roles creation / annihilation / density and S+ S- Sz."""
    if F.cls == "SpinlessFermions":
        fer = {"CP": "cp", "C": "c", "NN": "n"}
    elif F.cls in ("SpinfulFermions", "SpinfulFermions_tJ"):
        s = rng.choice("ud")
        fer = {"CP": "cp" + s, "C": "c" + s, "NN": "n" + s}
    else:
        fer = None
    if F.cls in ("Spin12", "Spin1"):
        spin = {"SP": "sp", "SM": "sm", "SZ": "sz"}
    elif F.cls in ("SpinfulFermions", "SpinfulFermions_tJ"):
        spin = {"SP": "Sp", "SM": "Sm", "SZ": "Sz"}
    else:
        spin = None
    return fer, spin


def latex_map(rng, N):
    """Site labelling of a Generator: (mapkind, perm, labels, map or None, label -> site)."""
    mapkind = rng.choice(("none", "none", "str", "perm", "tuple", "perm-str"))
    perm = list(range(N))
    if mapkind.startswith("perm"):
        rng.shuffle(perm)
    if mapkind in ("none", "perm"):
        labels = list(range(N))
    elif mapkind in ("str", "perm-str"):
        labels = [str(i) for i in range(N)]
    else:
        labels = [(str(i), "A") for i in range(N)]
    mp = None if mapkind == "none" else {l: perm[i] for i, l in enumerate(labels)}
    S = (lambda l: l) if mp is None else (lambda l: mp[l])
    return mapkind, perm, labels, mp, S


def latex_problem(F, rng, nprng, N, labels, S, mapkind):
    """Random parameter set + all templates applicable to the family, each with our own expansion into
    (amplitude, [(operator name, label), ...]) terms.  Returns (P, templates, sites, NN, pstyle)."""
    sites = list(labels)
    if rng.random() < 0.4:
        rng.shuffle(sites)
        sites = sites[:rng.randint(1, N)]
    NN = []
    for _ in range(rng.randint(1, N + 1)):
        a, b = rng.sample(labels, 2)
        NN.append((a, b))
    if rng.random() < 0.5:
        NN = [(labels[i], labels[i + 1]) for i in range(N - 1)]
    fer, spin = latex_symbols(F, rng)
    t, mu, V, U, J, Dz, h = (rng.choice((1, -1)) * rng.uniform(0.2, 1.8) for _ in range(7))
    if rng.random() < 0.3:
        t = complex(t, rng.uniform(0.3, 1.0))
    pstyle = "plain"
    r = rng.random()
    if r < 0.12:                               # a parameter that is exactly zero (int or float), as in the repository tests
        pstyle = "zero"
        z = rng.choice((0, 0.0))
        t, mu, V, U, J, Dz, h = (z if rng.random() < 0.4 else x for x in (t, mu, V, U, J, Dz, h))
    elif r < 0.22:                             # couplings spread over many orders of magnitude
        pstyle = "wide"
        t, mu, V, U, J, Dz, h = (x * 10.0 ** rng.choice((-9, -6, 0, 0, 6, 9)) for x in (t, mu, V, U, J, Dz, h))
    tm, mum = nprng.uniform(0.2, 1.5, (N, N)) * nprng.choice((-1, 1), (N, N)), nprng.uniform(0.2, 1.5, N)
    P = {"t": t, "mu": mu, "V": V, "U": U, "J": J, "Dz": Dz, "h": h, "tm": tm, "mum": mum, "sites": sites, "NN": NN}
    templates = []
    if fer:
        CP, C, Nn = fer["CP"], fer["C"], fer["NN"]
        templates += [
            ("hop+mu", rf"\sum_{{j,k \in NN}} t ({CP}_{{j}} {C}_{{k}} + {CP}_{{k}} {C}_{{j}}) + \sum_{{i \in sites}} mu {Nn}_{{i}}",
             [(t, [(CP, j), (C, k)]) for j, k in NN] + [(t, [(CP, k), (C, j)]) for j, k in NN] + [(mu, [(Nn, i)]) for i in sites]),
            ("hop-matrix", rf"\sum_{{j,k \in NN}} tm_{{j,k}} ({CP}_{{j}} {C}_{{k}}+{CP}_{{k}} {C}_{{j}}) + \sum_{{i \in sites}} mum_{{i}} {CP}_{{i}} {C}_{{i}}",
             [(tm[S(j), S(k)], [(CP, j), (C, k)]) for j, k in NN] + [(tm[S(j), S(k)], [(CP, k), (C, j)]) for j, k in NN]
             + [(mum[S(i)], [(CP, i), (C, i)]) for i in sites]),
            ("double-sum", rf"\sum_{{j \in sites}} \sum_{{k \in sites}} tm_{{j,k}} {CP}_{{j}} {C}_{{k}}",
             [(tm[S(j), S(k)], [(CP, j), (C, k)]) for j in sites for k in sites]),
            ("dens-dens", rf"\sum_{{j,k \in NN}} V {Nn}_{{j}} {Nn}_{{k}} - \sum_{{i \in sites}} mu {Nn}_{{i}}",
             [(V, [(Nn, j), (Nn, k)]) for j, k in NN] + [(-mu, [(Nn, i)]) for i in sites]),
            ("current", rf"\sum_{{j,k \in NN}} (1j * V {CP}_{{j}} {C}_{{k}} - 1j * V {CP}_{{k}} {C}_{{j}})",
             [(1j * V, [(CP, j), (C, k)]) for j, k in NN] + [(-1j * V, [(CP, k), (C, j)]) for j, k in NN]),
            ("three-op", rf"\sum_{{j,k \in NN}} U {C}_{{k}} {CP}_{{j}} {Nn}_{{k}}",
             [(U, [(C, k), (CP, j), (Nn, k)]) for j, k in NN]),
            ("charged-sum", rf"\sum_{{i \in sites}} mum_{{i}} {CP}_{{i}}", [(mum[S(i)], [(CP, i)]) for i in sites]),
            ("scaled-sum", rf"2 * \sum_{{i \in sites}} {Nn}_{{i}} - \sum_{{j,k \in NN}} t*{CP}_{{j}}*{C}_{{k}}",
             [(2.0, [(Nn, i)]) for i in sites] + [(-t, [(CP, j), (C, k)]) for j, k in NN]),
            ("pair-hop", rf"\sum_{{j,k \in NN}} U {CP}_{{j}} {CP}_{{k}} + \sum_{{j,k \in NN}} V {CP}_{{k}} {Nn}_{{j}} {CP}_{{j}}",
             [(U, [(CP, j), (CP, k)]) for j, k in NN] + [(V, [(CP, k), (Nn, j), (CP, j)]) for j, k in NN]),
        ]
    if spin:
        SP, SM, SZ = spin["SP"], spin["SM"], spin["SZ"]
        templates += [
            ("xxz", rf"\sum_{{i,j \in NN}} J ( {SP}_{{i}} {SM}_{{j}} + {SM}_{{i}} {SP}_{{j}} ) + \sum_{{i,j \in NN}} Dz {SZ}_{{i}} {SZ}_{{j}} + \sum_{{i \in sites}} h {SZ}_{{i}}",
             [(J, [(SP, i), (SM, j)]) for i, j in NN] + [(J, [(SM, i), (SP, j)]) for i, j in NN]
             + [(Dz, [(SZ, i), (SZ, j)]) for i, j in NN] + [(h, [(SZ, i)]) for i in sites]),
            ("occupation", rf"\sum_{{j \in sites}} {SP}_{{j}} {SM}_{{j}}", [(1.0, [(SP, j), (SM, j)]) for j in sites]),
        ]
    if F.cls == "Spin12" and F.symarg != "U1":
        templates.append(("ising", r"-\sum_{i,j \in NN} J x_{i} x_{j} + \sum_{i \in sites} (-1) h z_{i}",
                          [(-J, [("x", i), ("x", j)]) for i, j in NN] + [(-h, [("z", i)]) for i in sites]))
    if mapkind in ("str", "perm-str") and fer:
        a, b = rng.sample(labels, 2)
        CP, C, Nn = fer["CP"], fer["C"], fer["NN"]
        templates.append(("literal", rf"0.5 * {CP}_{{{a}}} {C}_{{{b}}} + 2 {CP}_{{{b}}} {C}_{{{a}}} - {Nn}_{{{b}}} {Nn}_{{{a}}}",
                          [(0.5, [(CP, a), (C, b)]), (2.0, [(CP, b), (C, a)]), (-1.0, [(Nn, b), (Nn, a)])]))
        templates.append(("literal-4", rf"{CP}_{{{b}}} {C}_{{{a}}} {CP}_{{{a}}} {C}_{{{b}}}",
                          [(1.0, [(CP, b), (C, a), (CP, a), (C, b)])]))
    return P, templates, sites, NN, pstyle


def case_latex(ctx, F, rng, nprng):
    import yastn.tn.mps as mps
    N = draw_N(rng, F.d, 256, 6)
    mapkind, perm, labels, mp, S = latex_map(rng, N)
    P, templates, sites, NN, pstyle = latex_problem(F, rng, nprng, N, labels, S, mapkind)
    tname, H_str, tlist = rng.choice(templates)
    none_params = tname.startswith("literal") and rng.random() < 0.25
    wit = {"family": F.tag, "N": N, "template": tname, "H_str": H_str, "map": mapkind, "perm": perm,
           "sites": sites, "NN": NN, "parameters": {k: P[k] for k in ("t", "mu", "V", "U", "J", "Dz", "h")}}
    sig = ("latex", F.tag, N, tname, mapkind, tuple(perm), tuple(map(repr, sites)), tuple(map(repr, NN)), none_params, pstyle)
    count_flavour(ctx, F)
    ctx.count("latex_template:" + tname)
    gen_kw = {}
    if mp is not None:
        gen_kw["map"] = dict(mp)
    ctor = "default"
    r = rng.random()
    if not none_params and r < 0.25:           # `parameters` of the constructor = defaults of mpo_from_latex; call-time values win
        ctor = rng.choice(("ctor-all", "ctor-all-empty-call", "ctor-overridden"))
        gen_kw["parameters"] = dict(P) if ctor != "ctor-overridden" else {**P, "t": 123.0, "mu": -7.0, "J": 55.0, "V": 9.0}
    ctx.count("latex_ctor:" + ctor)
    ctx.count("latex_params:" + pstyle)
    wit["ctor"], wit["param_style"] = ctor, pstyle
    gen = mps.Generator(N, F.ops, **gen_kw)
    if ctor == "ctor-all":
        H = gen.mpo_from_latex(H_str)
    elif ctor == "ctor-all-empty-call":
        H = gen.mpo_from_latex(H_str, {})
    elif ctor == "ctor-overridden":
        H = gen.mpo_from_latex(H_str, dict(P))
    elif none_params:
        ctx.count("latex_parameters_omitted")
        try:
            H = gen.mpo_from_latex(H_str)
        except TypeError as e:
            ctx.violation(K_LATEX_NONE, f"mpo_from_latex(H_str) with the default parameters=None raises TypeError: {e}", wit)
            ctx.case(sig, True, wit)
            return
    else:
        H = gen.mpo_from_latex(H_str, dict(P)) if rng.random() < 0.5 else gen.mpo_from_latex(H_str, parameters=dict(P))
    for a, fs in tlist:
        pos = [S(l) for _, l in fs]
        ctx.count("terms_total")
        if len(set(pos)) < len(pos):
            ctx.count("terms_repeated_sites")
        if any(x > y for x, y in zip(pos, pos[1:])):
            ctx.count("terms_descending")
    M = F.model(N)
    dense_terms = [(a, F.factors([nm for nm, _ in fs], [S(l) for _, l in fs])) for a, fs in tlist]
    exp = M.sum_terms(dense_terms)
    scale = sum(abs(a) * float(np.prod([F.opnorm[nm] for nm, _ in fs])) for a, fs in tlist)
    got = jw.mpo_matrix(H, [F.space] * N)
    cmp_matrix(ctx, "value:mpo_from_latex" + ("" if pstyle == "plain" else ":parameters-" + pstyle) + ("" if ctor == "default" else ":" + ctor),
               "mpo_from_latex", got, exp, TOL_MPO * scale, wit)
    ctx.count("latex_compared")
    nz = bool(scale > 0 and np.max(np.abs(exp)) > 1e-9 * scale)
    if nz:
        ctx.count("nonzero_references")
    if F.fermionic and scale > 0 and np.max(np.abs(exp - F.model(N, bosonic=True).sum_terms(dense_terms))) > 1e-7 * scale:
        ctx.count("string_sensitive")
        ctx.count("latex_string_sensitive")
    ctx.case(sig, nz, wit)


# ------------------------------------------------------------------ Generator histories

def case_genhist(ctx, F, rng, nprng):
    """One Generator object used repeatedly.  Objects it returned (gen.I(), MPOs, random states) are edited in place by
    the caller; every later gen.mpo_from_latex(...) must still be the dense truth and gen.I() the dense identity."""
    import yastn
    import yastn.tn.mps as mps
    N = draw_N(rng, F.d, 64, 6)
    mapkind, perm, labels, mp, S = latex_map(rng, N)
    gen = mps.Generator(N, F.ops, **({} if mp is None else {"map": dict(mp)}))
    M, spaces, Id = F.model(N), [F.space] * N, np.eye(F.d ** N)
    count_flavour(ctx, F)
    history, kept = [], []
    edited_I = edited_any = False
    checks_after_I_edit = 0
    nz = False

    def tag():
        return ":after-inplace-edit-of-returned-I" if edited_I else (":after-inplace-edit-of-returned-object" if edited_any else ":history")

    def edit_in_place(obj, what):
        """A legal in-place use of an object the generator handed out."""
        ops_done = []
        for _ in range(rng.randint(1, 2)):
            e = rng.choice(("canonize", "canonize", "canonize-nonorm", "site-scale", "truncate", "canonize-both"))
            if e == "canonize":
                obj.canonize_(to=rng.choice(("first", "last")))
            elif e == "canonize-nonorm":
                obj.canonize_(to=rng.choice(("first", "last")), normalize=False)
            elif e == "canonize-both":
                obj.canonize_(to="last").canonize_(to="first")
            elif e == "site-scale":
                n0 = rng.randrange(N)
                obj[n0] = rng.choice((0.5, -2.0, 3.0, 1e-3)) * obj[n0]
            else:
                obj.canonize_(to="first", normalize=False)
                obj.truncate_(to="last", opts_svd={"D_total": rng.choice((1, 2)), "tol": 1e-12}, normalize=rng.random() < 0.5)
            ops_done.append(e)
        history.append(f"edit {what}: " + "+".join(ops_done))

    def check_I(where):
        nonlocal checks_after_I_edit
        I = gen.I()
        got = jw.mpo_matrix(I, spaces) if len(I) == N else np.zeros((0, 0))
        cmp_matrix(ctx, "value:Generator.I" + tag(), "Generator.I", got, Id, 1e-13, {**wit(), "at": where})
        ctx.count("genhist_I_checks")
        if edited_I:
            checks_after_I_edit += 1
        return I

    def wit():
        return {"family": F.tag, "N": N, "map": mapkind, "perm": perm, "history": list(history)}

    def check_latex():
        nonlocal nz, checks_after_I_edit
        P, templates, sites, NN, pstyle = latex_problem(F, rng, nprng, N, labels, S, mapkind)
        tname, H_str, tlist = rng.choice(templates)
        history.append(f"mpo_from_latex {tname} ({pstyle})")
        H = gen.mpo_from_latex(H_str, dict(P))
        dense_terms = [(a, F.factors([nm for nm, _ in fs], [S(l) for _, l in fs])) for a, fs in tlist]
        exp = M.sum_terms(dense_terms)
        scale = sum(abs(a) * float(np.prod([F.opnorm[nm] for nm, _ in fs])) for a, fs in tlist)
        got = jw.mpo_matrix(H, spaces)
        cmp_matrix(ctx, "value:mpo_from_latex" + tag(), "mpo_from_latex", got, exp, TOL_MPO * scale,
                   {**wit(), "H_str": H_str, "sites": sites, "NN": NN})
        ctx.count("genhist_latex_checks")
        ctx.count("latex_template:" + tname)
        if edited_I:
            checks_after_I_edit += 1
        if scale > 0 and np.max(np.abs(exp)) > 1e-9 * scale:
            nz = True
            ctx.count("nonzero_references")
            if F.fermionic and np.max(np.abs(exp - F.model(N, bosonic=True).sum_terms(dense_terms))) > 1e-7 * scale:
                ctx.count("string_sensitive")
        return H

    steps = [rng.choice(("I-edit", "I-edit", "latex", "latex", "latex-edit", "random_mps", "random_mpo", "I-keep"))
             for _ in range(rng.randint(3, 6))]
    if "I-edit" not in steps and rng.random() < 0.7:
        steps.insert(rng.randrange(len(steps)), "I-edit")
    if rng.random() < 0.5:
        steps.insert(0, "latex")
    for st in steps:
        if st == "I-edit":
            rho = check_I("before edit")
            edit_in_place(rho, "gen.I()")
            kept.append(rho)
            edited_I = edited_any = True
        elif st == "I-keep":
            kept.append(check_I("keep"))
            history.append("gen.I() kept")
        elif st == "latex":
            kept.append(check_latex())
        elif st == "latex-edit":
            H = check_latex()
            edit_in_place(H, "returned MPO")
            kept.append(H)
            edited_any = True
        else:
            F.cfg.backend.random_seed(rng.randrange(2 ** 31))
            try:
                if st == "random_mps":
                    obj = gen.random_mps(n=(None if F.sym == "dense" else rng.choice(sorted(reachable(F, N)))), D_total=rng.choice((2, 4)))
                else:
                    obj = gen.random_mpo(D_total=rng.choice((2, 4)))
            except yastn.YastnError as e:         # documented: random state may come out as the zero state
                if "zero state" not in str(e):
                    raise
                ctx.count("random_mps_zero_state")
                history.append(st + " (zero state)")
                continue
            history.append(st)
            ctx.count("genhist_" + st)
            if len(obj) != N:
                ctx.violation("shape:Generator." + st, f"{st} has {len(obj)} sites, expected {N}", wit())
            edit_in_place(obj, st)
            kept.append(obj)
            edited_any = True
    check_latex()
    check_I("end")
    ctx.count("genhist_cases")
    if checks_after_I_edit:
        ctx.count("generator_histories_with_inplace_edit_of_returned_I")
    ctx.case(("genhist", F.tag, N, mapkind, tuple(h.split(" (")[0] for h in history)), nz, wit())


# ------------------------------------------------------------------ measurements

def same_charge_pool(F, name):
    n = F.loc[name][1]
    return [k for k in F.names if F.loc[k][1] == n]


def make_opdict(F, rng, N, base, sites=None):
    """{site: operator} of equal charge but different matrices, keys inserted in a user-like order (increasing, reversed
    or shuffled -- a dict is an ordered container, the result must not depend on that order).
    Returns (yastn dict, {site: (mat, n, norm, name)}, order kind)."""
    pool = same_charge_pool(F, base)
    if sites is None:
        k = rng.choice((1, 2, 2, 3, N, N, max(1, N - 1), rng.randint(1, N)))
        sites = rng.sample(range(N), min(k, N))
    order = rng.choice(("increasing", "reversed", "shuffled", "shuffled"))
    sites = sorted(sites)
    if order == "reversed":
        sites.reverse()
    elif order == "shuffled":
        rng.shuffle(sites)
    yd, loc = {}, {}
    for s in sites:
        nm = rng.choice(pool)
        c = rng.choice((1.0, 1.0, -0.5, 2.0))
        op = F.named[nm] if c == 1.0 else c * F.named[nm]
        mat, n = jw.local(op, F.space)
        yd[s], loc[s] = op, (mat, n, max(1.0, float(np.linalg.norm(mat, 2))), nm)
    return yd, loc, order


def descending_adjacent(keys, measured):
    """Does the insertion order `keys` visit some measured site s+1 before the measured site s?"""
    pos = {k: i for i, k in enumerate(keys) if k in measured}
    return any(s + 1 in pos and pos[s + 1] < pos[s] for s in pos)


def case_m1(ctx, F, rng, nprng):
    import yastn
    import yastn.tn.mps as mps
    N = draw_N(rng, F.d, 4096 if ctx.tier == "thorough" else 1024, 7 if ctx.tier == "thorough" else 6)
    base = rng.choice(F.weighted_z)
    ntot = F.loc[base][1]
    form = rng.choice(("tensor",) * 3 + ("dict",) * 4 + ("dict-mixed" if F.charged else "dict",))
    smode = rng.choice(("none", "none", "int", "list") if form == "tensor" else ("none", "none", "none", "list", "list", "int"))
    if rng.random() < 0.06:
        smode = "empty"                       # falsy: sites=() / [] , or an empty operator dict -> nothing to measure, {} returned
    count_flavour(ctx, F)
    bra, bv, ket, kv, scale, wst = bra_ket(ctx, F, N, ntot, rng)
    wit = {"family": F.tag, "N": N, "op": base, "form": form, "sites": smode, **wst}
    if form == "dict-mixed":
        other = rng.choice([k for k in F.names if F.loc[k][1] != ntot])
        s0, s1 = rng.sample(range(N), 2)
        try:
            mps.measure_1site(bra, {s0: F.named[base], s1: F.named[other]}, ket)
        except yastn.YastnError:
            ctx.count("m1_mixed_rejected")
            ctx.case(("m1", F.tag, N, "dict-mixed", base, other), True, wit)
            return
        ctx.violation("missing-reject:measure_1site:mixed-charge-dict", "operators of different charge accepted", wit)
        ctx.case(("m1", F.tag, N, "dict-mixed", base, other), True, wit)
        return
    order = None
    if form == "dict":
        O, loc, order = make_opdict(F, rng, N, base)
    else:
        O, loc = F.named[base], {s: (*F.loc[base], F.opnorm[base], base) for s in range(N)}
    if smode == "none":
        sites, want = None, sorted(loc)
    elif smode == "int":
        s = 0 if (0 in loc and rng.random() < 0.4) else rng.choice(sorted(loc))     # site 0 is falsy but is a site, not "None"
        sites, want = s, [s]
        if s == 0:
            ctx.count("m1_site0_int")
    elif smode == "empty":
        if form == "dict" and rng.random() < 0.4:
            O, loc, sites, want = {}, {}, rng.choice((None, [0, 1])), []
        else:
            sites, want = rng.choice(((), [])), []
        ctx.count("m1_sites_empty")
    elif form == "dict" and rng.random() < 0.7:
        # an unsorted list (repeats allowed) overlapping the dict: the dict holds extra keys and the list extra sites
        sites = rng.sample(sorted(loc), rng.randint(1, len(loc))) + [rng.randrange(N + 2) for _ in range(rng.randint(0, 2))]
        rng.shuffle(sites)
        if rng.random() < 0.3:
            sites = tuple(sites)
        want = sorted(set(sites) & set(range(N)) & set(loc))
    else:
        sites = [rng.randrange(N + 2) for _ in range(rng.randint(1, N + 1))]      # repeated / out-of-range entries are dropped
        want = sorted(set(sites) & set(range(N)) & set(loc))
    wit["sites_arg"] = sites
    vkey = "value:measure_1site"
    if form == "dict" and O:
        wit["dict_insertion_order"] = list(O)
        wit["dict_operators"] = {k: loc[k][3] for k in O}
        ctx.count("m1_dict_cases")
        ctx.count("m1_dict_order:" + order)
        if list(O) != sorted(O):
            vkey = "value:measure_1site:dict-unsorted-keys"
            ctx.count("m1_dict_unsorted")
        else:
            vkey = "value:measure_1site:dict"
        if descending_adjacent(list(O), set(want)):
            ctx.count("m1_dict_descending_adjacent")
        if set(O) - set(want):
            ctx.count("m1_dict_extra_keys")
    res = mps.measure_1site(bra, O, ket, sites=sites)
    sig = ("m1", F.tag, N, base, form, smode, repr(sites), wst["bra"] == "same",
           None if form != "dict" else tuple((k, loc[k][3]) for k in O))
    M, Mb = F.model(N), F.model(N, bosonic=True) if F.fermionic else None
    if smode == "int":
        if isinstance(res, dict):
            ctx.violation("return-type:measure_1site", "sites=int must return a number, got a dict", wit)
            ctx.case(sig, True, wit)
            return
        res = {sites: res}
    elif not isinstance(res, dict):
        ctx.violation("return-type:measure_1site", f"expected a dict, got {type(res).__name__}", wit)
        ctx.case(sig, True, wit)
        return
    if sorted(res) != want:
        ctx.violation("keys:measure_1site", f"sites returned {sorted(res)} expected {want}", wit)
    nz = smode == "empty"
    for s in want:
        if s not in res:
            continue
        mat, n, nrm, _ = loc[s]
        exp = M.expect(bv, [(mat, n, s)], kv)
        cmp_value(ctx, vkey, "measure_1site", res[s], exp, TOL_VAL * scale * nrm, {**wit, "site": s})
        ctx.count("m1_values")
        note_ref(ctx, exp, Mb.expect(bv, [(mat, n, s)], kv) if Mb else None, scale)
        nz = nz or abs(exp) > 1e-9 * scale
    ctx.case(sig, nz, wit)


def parse_bonds(bonds, N):
    """Pairs promised by the measure_2site docstring for a string pattern."""
    if "a" in bonds:
        return sorted((i, j) for i in range(N) for j in range(N))
    pairs = set()
    if "<" in bonds:
        pairs |= {(i, j) for i in range(N) for j in range(N) if i < j}
    if "=" in bonds:
        pairs |= {(i, i) for i in range(N)}
    if ">" in bonds:
        pairs |= {(i, j) for i in range(N) for j in range(N) if i > j}
    rest = bonds.replace("<", "").replace("=", "").replace(">", "")
    pbc = "p" in rest
    rest = rest.replace("p", "")
    for r in [int(x) for x in rest.split("r")[1:]]:
        for i in range(N):
            if pbc:
                pairs.add((i, (i + r) % N))
            elif 0 <= i + r < N:
                pairs.add((i, i + r))
    return sorted(pairs)


def case_m2(ctx, F, rng, nprng):
    import yastn
    import yastn.tn.mps as mps
    N = draw_N(rng, F.d, 4096 if ctx.tier == "thorough" else 1024, 7 if ctx.tier == "thorough" else 6)
    a, b = rng.choice(F.weighted_z), rng.choice(F.weighted_z)
    if F.charged and rng.random() < 0.5:
        a, b = rng.choice(F.charged), rng.choice(F.charged)
    ntot = G.add(F.sym, [F.loc[a][1], F.loc[b][1]])
    count_flavour(ctx, F)
    bra, bv, ket, kv, scale, wst = bra_ket(ctx, F, N, ntot, rng)
    fa, fb = rng.choice(("tensor", "tensor", "tensor", "dict")), rng.choice(("tensor", "tensor", "tensor", "dict"))
    if fa == "dict":
        O, locO, _ = make_opdict(F, rng, N, a)
    else:
        O, locO = F.named[a], {s: (*F.loc[a], F.opnorm[a], a) for s in range(N)}
    if fb == "dict":
        P, locP, _ = make_opdict(F, rng, N, b)
    else:
        P, locP = F.named[b], {s: (*F.loc[b], F.opnorm[b], b) for s in range(N)}
    if "dict" in (fa, fb):
        ctx.count("m2_dict_cases")
        if any(isinstance(x, dict) and list(x) != sorted(x) for x in (O, P)):
            ctx.count("m2_dict_unsorted")
    bk = rng.choice(("pattern", "pattern", "pairs", "pairs", "single", "default"))
    single = False
    r = rng.random()
    if r < 0.05:                              # falsy containers: no pairs requested / no operators given -> {} expected
        which = "pairs" if r < 0.03 else "dict"
        wit = {"family": F.tag, "N": N, "O": a, "P": b, "empty": which, **wst}
        ctx.count("m2_empty_" + which)
        try:
            if which == "pairs":
                res = mps.measure_2site(bra, O, P, ket, bonds=rng.choice(([], ())))
            elif rng.random() < 0.5:
                res = mps.measure_2site(bra, {}, P, ket, bonds=rng.choice(("a", "<", [(0, 1)])))
            else:
                res = mps.measure_2site(bra, O, {}, ket, bonds=rng.choice(("a", "<", [(0, 1)])))
        except IndexError as e:
            if which != "pairs":
                raise
            ctx.violation(K_M2_EMPTY_PAIRS, f"measure_2site with an empty sequence of pairs raises IndexError: {e}", wit)
            ctx.case(("m2-empty", F.tag, which), True, wit)
            return
        except StopIteration as e:
            if which != "dict":
                raise
            ctx.violation(K_M2_EMPTY_DICT, f"measure_2site with an empty operator dict raises StopIteration {e}", wit)
            ctx.case(("m2-empty", F.tag, which), True, wit)
            return
        if not (isinstance(res, dict) and len(res) == 0):
            ctx.violation("value:measure_2site:empty-request", f"nothing requested but got {res!r}", wit)
        ctx.case(("m2-empty", F.tag, which), True, wit)
        return
    if bk == "pattern":
        r1, r2 = rng.randint(1, N - 1) * rng.choice((1, -1)), rng.randint(1, N - 1) * rng.choice((1, -1))
        bonds = rng.choice(("a", "<", "=", ">", "<=", ">=", "<>", "<=>", f"r{r1}", f"r{r1}", f"r{r1}p", f"r{r1}p", f"pr{r1}",
                            f"r{r1}r{r2}", f"r{r1}r{r2}p", f"=r{r1}", f"<r{r1}p", "r1", "r-1", "r1p", "r-1p"))
        want = parse_bonds(bonds, N)
    elif bk == "pairs":
        want = []
        for _ in range(rng.randint(1, 2 * N)):
            i, j = rng.randrange(N), rng.randrange(N)
            rel = rng.choice("<=>>")
            if rel == "=":
                j = i
            elif (rel == ">") != (i > j):
                i, j = j, i
            want.append((i, j))
        bonds = list(want)                      # user-ordered container: arbitrary order, repeated pairs
        if rng.random() < 0.25:
            bonds = tuple(bonds)
        if len(bonds) != len(set(bonds)):
            ctx.count("m2_pairs_lists_with_repeats")
        if list(bonds) != sorted(bonds):
            ctx.count("m2_pairs_lists_unsorted")
        want = sorted(set(want))
    elif bk == "single":
        i, j = rng.randrange(N), rng.randrange(N)
        if rng.random() < 0.5 and i < j:
            i, j = j, i
        bonds, want, single = (i, j), [(i, j)], True
    else:
        bonds, want = None, parse_bonds("<", N)
    want = [(i, j) for i, j in want if i in locO and j in locP]
    wit = {"family": F.tag, "N": N, "O": a, "P": b, "O_form": fa, "P_form": fb, "bonds": bonds,
           "O_sites": sorted(locO), "P_sites": sorted(locP), **wst}
    sig = ("m2", F.tag, N, a, b, fa, fb, repr(bonds), tuple(sorted(locO)), tuple(sorted(locP)), wst["bra"] == "same")
    if bonds is None:
        res = mps.measure_2site(bra, O, P, ket)
    elif rng.random() < 0.5:
        res = mps.measure_2site(bra, O, P, ket, bonds)
    else:
        res = mps.measure_2site(bra, O, P, ket, bonds=bonds)
    if single:
        if want:
            if isinstance(res, dict):
                ctx.violation("return-type:measure_2site", "a single bond must return a number, got a dict", wit)
                ctx.case(sig, True, wit)
                return
            res = {want[0]: res}
        elif not (isinstance(res, dict) and len(res) == 0):
            ctx.violation("return-type:measure_2site", f"single bond without operators should give an empty dict, got {res!r}", wit)
            ctx.case(sig, True, wit)
            return
    elif not isinstance(res, dict):
        ctx.violation("return-type:measure_2site", f"expected a dict, got {type(res).__name__}", wit)
        ctx.case(sig, True, wit)
        return
    if sorted(res) != want:
        ctx.violation("keys:measure_2site", f"pairs returned {sorted(res)[:12]} expected {want[:12]} (pattern {bonds!r})", wit)
    M, Mb = F.model(N), F.model(N, bosonic=True) if F.fermionic else None
    nz = False
    for (i, j) in want:
        if (i, j) not in res:
            continue
        mo, no, so, _ = locO[i]
        mp_, np_, sp_, _ = locP[j]
        fs = [(mo, no, i), (mp_, np_, j)]
        exp = M.expect(bv, fs, kv)
        rel = "i<j" if i < j else ("i=j" if i == j else "i>j")
        cmp_value(ctx, "value:measure_2site:" + rel, "measure_2site", res[(i, j)], exp, TOL_VAL * scale * so * sp_,
                  {**wit, "pair": (i, j)})
        ctx.count("m2_values")
        ctx.count("m2_pairs_" + {"i<j": "i_lt_j", "i=j": "i_eq_j", "i>j": "i_gt_j"}[rel])
        note_ref(ctx, exp, Mb.expect(bv, fs, kv) if Mb else None, scale)
        nz = nz or abs(exp) > 1e-9 * scale
    ctx.case(sig, nz, wit)


def case_mn(ctx, F, rng, nprng):
    import yastn.tn.mps as mps
    N = draw_N(rng, F.d, 4096 if ctx.tier == "thorough" else 1024, 7 if ctx.tier == "thorough" else 6)
    for _ in range(100):
        k = rng.choice((1, 2, 2, 3, 3, 4, 4, 5, 6))
        if rng.random() < 0.04:
            k = 0                              # no operators, sites=(): the product over nothing is the identity -> <bra|ket>
        sites = [rng.randrange(N) for _ in range(k)]
        style = rng.choice(("free", "repeat", "desc", "free"))
        if style == "repeat" and k >= 2:
            sites[rng.randrange(1, k)] = sites[0]
        if style == "desc":
            sites.sort(reverse=True)
        names = [rng.choice(F.weighted_z) for _ in range(k)]
        if not onsite_zero(F, sites, names) or rng.random() < 0.05:
            break
    ntot = F.charge(names)
    count_flavour(ctx, F)
    bra, bv, ket, kv, scale, wst = bra_ket(ctx, F, N, ntot, rng)
    seq = rng.choice((list, tuple))
    wit = {"family": F.tag, "N": N, "operators": names, "sites": sites, **wst}
    if k == 0:
        ctx.count("mn_no_operators")
    if k > 0 and rng.random() < 0.03:          # `sites` has a default (None) but is required: documented rejection
        import yastn
        try:
            mps.measure_nsite(bra, *[F.named[nm] for nm in names], ket=ket)
        except yastn.YastnError:
            ctx.count("mn_sites_omitted_rejected")
            ctx.case(("mn-sites-omitted", F.tag, k), True, wit)
            return
        ctx.violation("missing-reject:measure_nsite:sites-omitted", "operators without sites were accepted", wit)
        ctx.case(("mn-sites-omitted", F.tag, k), True, wit)
        return
    val = mps.measure_nsite(bra, *[F.named[nm] for nm in names], ket=ket, sites=seq(sites))
    fs = F.factors(names, sites)
    exp = F.model(N).expect(bv, fs, kv)
    nrm = float(np.prod([F.opnorm[nm] for nm in names])) if names else 1.0
    cmp_value(ctx, "value:measure_nsite", "measure_nsite", val, exp, TOL_VAL * scale * nrm, wit)
    ctx.count("mn_values")
    if len(set(sites)) < len(sites):
        ctx.count("mn_repeated_sites")
    if any(x > y for x, y in zip(sites, sites[1:])):
        ctx.count("mn_descending")
    note_ref(ctx, exp, F.model(N, bosonic=True).expect(bv, fs, kv) if F.fermionic else None, scale)
    ctx.case(("mn", F.tag, N, tuple(names), tuple(sites), wst["bra"] == "same"), abs(exp) > 1e-9 * scale, wit)


def case_rdm(ctx, F, rng, nprng):
    import yastn.tn.mps as mps
    N = draw_N(rng, F.d, 4096 if ctx.tier == "thorough" else 1024, 7 if ctx.tier == "thorough" else 6)
    kmax = 1
    while kmax + 1 <= min(N, 4) and F.d ** (2 * (kmax + 1)) <= 256:
        kmax += 1
    k = rng.randint(1, kmax)
    sites = rng.sample(range(N), k)
    count_flavour(ctx, F)
    reach = sorted(reachable(F, N))
    psi, vec, how = make_state(ctx, F, N, rng.choice(reach), rng)
    if rng.random() < 0.5:       # rdm is the reduced density matrix of the state to_tensor() shows, |factor|^2 included
        c = rng.choice((-1.0, 0.5, -2.5, 0.6 + 0.8j, 1.3j, 1e-3, -1e-3, 1e3))
        psi = c * psi
        vec = jw.mps_vector(psi, [F.space] * N)
        how += f":x{c}"
    with_factor = abs(psi.factor - 1) > 1e-12
    if with_factor:
        ctx.count("rdm_factor_cases")
    vkey = "value:rdm:factor" if with_factor else "value:rdm"
    wit = {"family": F.tag, "N": N, "sites": sites, "state": how, "factor": psi.factor}
    rho = mps.rdm(psi, *sites)
    if rho.ndim != 2 * k:
        ctx.violation("shape:rdm", f"rdm over {k} sites has {rho.ndim} legs", wit)
        ctx.case(("rdm", F.tag, N, tuple(sites)), True, wit)
        return
    R = jw.tensor_matrix(rho, [F.space] * k)
    MN, Mk = F.model(N), F.model(k)
    MNb = F.model(N, bosonic=True) if F.fermionic else None
    nrm2 = state_scale(psi, vec) ** 2
    d = F.d
    combos = list(itertools.product(range(d), repeat=2 * k))
    if len(combos) > 256:
        combos = rng.sample(combos, 256)
    nz = False
    units = {}
    for ab in combos:
        fsN, fsk = [], []
        for i in range(k):
            a, b = ab[2 * i], ab[2 * i + 1]
            if (a, b) not in units:
                E = np.zeros((d, d))
                E[a, b] = 1.0
                units[(a, b)] = (E, G.add(F.sym, [F.charges[a], G.neg(F.sym, F.charges[b])]))
            E, n = units[(a, b)]
            fsN.append((E, n, sites[i]))
            fsk.append((E, n, i))
        exp = MN.expect(vec, fsN, vec)
        got = np.trace(R @ Mk.product(fsk))
        cmp_value(ctx, vkey, "rdm", got, exp, TOL_VAL * nrm2 * 10, {**wit, "matrix_units": ab})
        ctx.count("rdm_elements")
        note_ref(ctx, exp, MNb.expect(vec, fsN, vec) if MNb else None, nrm2)
        nz = nz or abs(exp) > 1e-9 * nrm2
    if any(x > y for x, y in zip(sites, sites[1:])):
        ctx.count("rdm_unordered_sites")
    ctx.count("rdm_cases")
    ctx.case(("rdm", F.tag, N, tuple(sites), how, with_factor), nz, wit)


def case_sample(ctx, F, rng, nprng):
    import yastn
    import yastn.tn.mps as mps
    N = draw_N(rng, F.d, 4096 if ctx.tier == "thorough" else 1024, 7 if ctx.tier == "thorough" else 6)
    count_flavour(ctx, F)
    reach = sorted(reachable(F, N))
    psi, vec, how = make_state(ctx, F, N, rng.choice(reach), rng)
    d = F.d
    secs = F.sectors()

    def make_basis():
        """Complete orthonormal local basis respecting the charge sectors; returns list of (yastn projector, dense d x d P)."""
        cplx = rng.random() < 0.5
        kind = rng.choice(("vector", "vector", "matrix"))
        items = []
        for t, idx in sorted(secs.items()):
            D = len(idx)
            if D == 1 or rng.random() < 0.3:
                q = np.eye(D)
            else:
                q = nprng.standard_normal((D, D)) + (1j * nprng.standard_normal((D, D)) if cplx else 0)
                q, _ = np.linalg.qr(q)
            cols = list(range(D))
            if kind == "vector":
                for j in cols:
                    v = np.zeros(d, dtype=q.dtype)
                    v[idx] = q[:, j]
                    yv = yastn.Tensor(config=F.cfg, s=(1,), n=t, dtype="complex128" if np.iscomplexobj(q) else "float64")
                    yv.set_block(ts=(t,), Ds=(D,), val=q[:, j])
                    items.append((yv, np.outer(v, v.conj())))
            else:
                while cols:
                    grp = [cols.pop() for _ in range(min(len(cols), rng.choice((1, 1, 2))))]
                    Pb = sum(np.outer(q[:, j], q[:, j].conj()) for j in grp)
                    Pd = np.zeros((d, d), dtype=Pb.dtype)
                    Pd[np.ix_(idx, idx)] = Pb
                    yp = yastn.Tensor(config=F.cfg, s=(1, -1), dtype="complex128" if np.iscomplexobj(Pb) else "float64")
                    yp.set_block(ts=(t, t), Ds=(D, D), val=Pb)
                    items.append((yp, Pd))
        rng.shuffle(items)
        container = rng.choice(("list", "dict"))
        keys = list(range(len(items))) if container == "list" else rng.sample(range(50), len(items))
        yarg = [y for y, _ in items] if container == "list" else {k: y for k, (y, _) in zip(keys, items)}
        return yarg, {k: P for k, (_, P) in zip(keys, items)}, kind + ":" + container

    per_site = rng.random() < 0.4
    if per_site:
        bases = [make_basis() for _ in range(N)]
        projectors = {s: bases[s][0] for s in range(N)}
        dense = [bases[s][1] for s in range(N)]
        bk = "per-site:" + ",".join(sorted({b[2] for b in bases}))
    else:
        yarg, dd, bk = make_basis()
        projectors, dense = yarg, [dd] * N
    number = rng.randint(1, 5)
    call = rng.choice(("full",) * 7 + ("defaults", "defaults", "no-probabilities", "number=0"))
    F.cfg.backend.random_seed(rng.randrange(2 ** 31))
    wit = {"family": F.tag, "N": N, "state": how, "basis": bk, "number": number, "call": call}
    sig = ("sample", F.tag, N, bk, number, how, call)
    ctx.count("sample_call:" + call)
    probs = None
    if call == "defaults":                     # number=1, return_probabilities=False
        out, number = mps.sample(psi, projectors), 1
    elif call == "no-probabilities":
        out = mps.sample(psi, projectors, number) if rng.random() < 0.5 else mps.sample(psi, projectors, number=number, return_probabilities=False)
    elif call == "number=0":
        out, number = mps.sample(psi, projectors, number=0, return_probabilities=True), 0
    else:
        out = mps.sample(psi, projectors, number=number, return_probabilities=True)
    if call in ("defaults", "no-probabilities"):
        if isinstance(out, tuple):
            ctx.violation("return-type:sample", "return_probabilities=False (the default) must return only the samples", wit)
            ctx.case(sig, True, wit)
            return
        samples = np.asarray(out)
        probs = [None] * len(samples)
    else:
        if not (isinstance(out, tuple) and len(out) == 2):
            ctx.violation("return-type:sample", "return_probabilities=True must return (samples, probabilities)", wit)
            ctx.case(sig, True, wit)
            return
        samples, probs = out
        samples = np.asarray(samples)
    if samples.shape != (number, N) or len(probs) != number:
        ctx.violation("shape:sample", f"samples shape {samples.shape}, {len(probs)} probabilities; expected ({number},{N})", wit)
        ctx.case(sig, True, wit)
        return
    nrm2 = float(np.vdot(vec, vec).real)
    cond = max(1.0, state_scale(psi, vec) ** 2 / nrm2)      # sample() normalises: errors scale with the conditioning of psi
    for srow, p in zip(samples, probs):
        v = vec.reshape((d,) * N)
        ok = True
        for s, key in enumerate(srow):
            key = int(key)
            if key not in dense[s]:
                ctx.violation("keys:sample", f"sample entry {key} at site {s} is not a projector key", wit)
                ok = False
                break
            v = np.moveaxis(np.tensordot(dense[s][key], v, axes=(1, s)), 0, s)
        if not ok:
            continue
        born = float(np.vdot(v, v).real) / nrm2
        if p is None:          # only the configuration is returned: it must be one the dense state can produce at all
            ctx.count("sample_configs_checked")
            if born < 1e-13 * cond:
                ctx.violation("value:sample:impossible-configuration", f"sampled configuration has Born probability {born:.3e}",
                              {**wit, "sample": srow.tolist()})
            continue
        cmp_value(ctx, "value:sample:probability", "sample", p, born, TOL_PROB * cond, {**wit, "sample": srow.tolist()})
        ctx.count("sample_probs")
        if born > 1e-9:
            ctx.count("nonzero_references")
    if not F.cfg.sym.NSYM == 0 and any(len(v) > 1 for v in secs.values()):
        ctx.count("sample_degenerate_sector_bases")
    ctx.case(sig, True, wit)


# ------------------------------------------------------------------ on-site algebra

def case_algebra(ctx, F, rng, nprng):
    """CAR / spin commutators / n = c+ c ... of the predefined operators, on their dense on-site matrices."""
    L = {k: v[0] for k, v in F.loc.items()}
    Id = np.eye(F.d)
    wit = {"family": F.tag}
    count_flavour(ctx, F)

    def rel(name, lhs, rhs):
        ctx.count("algebra_relations")
        diff = np.abs(np.asarray(lhs) - np.asarray(rhs))
        err = float(np.max(diff)) if diff.size else 0.0
        if not ctx.margin("algebra", err, TOL_ALG):
            slug = "".join(ch if ch.isalnum() or ch in "+-=^{},|<>_" else "_" for ch in name)
            ctx.violation("algebra:" + F.cls + ":" + slug, f"{F.tag}: relation {name} violated by {err:.3e}", wit)

    def comm(a, b):
        return a @ b - b @ a

    def acomm(a, b):
        return a @ b + b @ a

    # charges: every non-zero element of an operator of charge n connects states with t_row - t_col = n
    for k, (m, n) in F.loc.items():
        ctx.count("algebra_relations")
        for a, b in zip(*np.nonzero(m)):
            if G.add(F.sym, [F.charges[a], G.neg(F.sym, F.charges[b])]) != n:
                ctx.violation("algebra:charge-of-operator", f"{F.tag}.{k}: element ({a},{b}) inconsistent with charge {n}", wit)
                break
    rel("I=1", L["I"], Id)
    if F.cls == "Spin12":
        rel("z^2=1", L["z"] @ L["z"], Id)
        rel("sz=z/2", L["sz"], L["z"] / 2)
        rel("sp^+=sm", L["sp"].conj().T, L["sm"])
        rel("[sp,sm]=2sz", comm(L["sp"], L["sm"]), 2 * L["sz"])
        rel("[sz,sp]=sp", comm(L["sz"], L["sp"]), L["sp"])
        rel("[sz,sm]=-sm", comm(L["sz"], L["sm"]), -L["sm"])
        rel("sp^2=0", L["sp"] @ L["sp"], 0 * Id)
        for val in (1, -1):
            v = jw.local_vec(F.ops.vec_z(val=val), F.space)
            rel("z vec_z", L["z"] @ v, val * v)
            rel("|vec_z|=1", np.vdot(v, v), 1.0)
        if "x" in L:
            rel("x^2=1", L["x"] @ L["x"], Id)
            rel("y^2=1", L["y"] @ L["y"], Id)
            rel("xy=iz", L["x"] @ L["y"], 1j * L["z"])
            rel("yz=ix", L["y"] @ L["z"], 1j * L["x"])
            rel("zx=iy", L["z"] @ L["x"], 1j * L["y"])
            rel("{x,y}=0", acomm(L["x"], L["y"]), 0 * Id)
            rel("iy=i*y", L["iy"], 1j * L["y"])
            rel("sx=x/2", L["sx"], L["x"] / 2)
            rel("sy=y/2", L["sy"], L["y"] / 2)
            rel("isy=i*sy", L["isy"], 1j * L["sy"])
            rel("sp=sx+isy", L["sp"], L["sx"] + 1j * L["sy"])
            rel("sm=sx-isy", L["sm"], L["sx"] - 1j * L["sy"])
            rel("[sx,sy]=isz", comm(L["sx"], L["sy"]), 1j * L["sz"])
            rel("x=x^+", L["x"], L["x"].conj().T)
            rel("y=y^+", L["y"], L["y"].conj().T)
        if F.symarg == "dense":
            for val in (1, -1):
                v = jw.local_vec(F.ops.vec_x(val=val), F.space)
                rel("x vec_x", L["x"] @ v, val * v)
                rel("|vec_x|=1", np.vdot(v, v), 1.0)
                v = jw.local_vec(F.ops.vec_y(val=val), F.space)
                rel("y vec_y", L["y"] @ v, val * v)
                rel("|vec_y|=1", np.vdot(v, v), 1.0)
    elif F.cls == "Spin1":
        rel("sp^+=sm", L["sp"].conj().T, L["sm"])
        rel("[sp,sm]=2sz", comm(L["sp"], L["sm"]), 2 * L["sz"])
        rel("[sz,sp]=sp", comm(L["sz"], L["sp"]), L["sp"])
        rel("[sz,sm]=-sm", comm(L["sz"], L["sm"]), -L["sm"])
        rel("casimir=2", L["sz"] @ L["sz"] + (L["sp"] @ L["sm"] + L["sm"] @ L["sp"]) / 2, 2 * Id)
        rel("sz=sz^+", L["sz"], L["sz"].conj().T)
        for val in (1, 0, -1):
            v = jw.local_vec(F.ops.vec_z(val=val), F.space)
            rel("sz vec_z", L["sz"] @ v, val * v)
            rel("|vec_z|=1", np.vdot(v, v), 1.0)
        if "sx" in L:
            rel("sp=sx+isy", L["sp"], L["sx"] + 1j * L["sy"])
            rel("sm=sx-isy", L["sm"], L["sx"] - 1j * L["sy"])
            rel("isy=i*sy", L["isy"], 1j * L["sy"])
            rel("[sx,sy]=isz", comm(L["sx"], L["sy"]), 1j * L["sz"])
            rel("[sy,sz]=isx", comm(L["sy"], L["sz"]), 1j * L["sx"])
            rel("[sz,sx]=isy", comm(L["sz"], L["sx"]), 1j * L["sy"])
            for val in (1, 0, -1):
                v = jw.local_vec(F.ops.vec_x(val=val), F.space)
                rel("sx vec_x", L["sx"] @ v, val * v)
                rel("|vec_x|=1", np.vdot(v, v), 1.0)
                v = jw.local_vec(F.ops.vec_y(val=val), F.space)
                rel("sy vec_y", L["sy"] @ v, val * v)
                rel("|vec_y|=1", np.vdot(v, v), 1.0)
    elif F.cls == "SpinlessFermions":
        rel("{c,cp}=1", acomm(L["c"], L["cp"]), Id)
        rel("c^2=0", L["c"] @ L["c"], 0 * Id)
        rel("cp^2=0", L["cp"] @ L["cp"], 0 * Id)
        rel("n=cp c", L["n"], L["cp"] @ L["c"])
        rel("cp=c^+", L["cp"], L["c"].conj().T)
        rel("charge(c)=-charge(cp)", np.array(G.add(F.sym, [F.loc["c"][1], F.loc["cp"][1]])), np.array(F.zero))
        for val in (0, 1):
            v = jw.local_vec(F.ops.vec_n(val=val), F.space)
            rel("n vec_n", L["n"] @ v, val * v)
            rel("|vec_n|=1", np.vdot(v, v), 1.0)
        v0, v1 = jw.local_vec(F.ops.vec_n(0), F.space), jw.local_vec(F.ops.vec_n(1), F.space)
        rel("cp|0>=|1>", L["cp"] @ v0, v1)
    elif F.cls in ("SpinfulFermions", "SpinfulFermions_tJ"):
        tJ = F.cls == "SpinfulFermions_tJ"
        for s in "ud":
            rel(f"n{s}=cp{s} c{s}", L["n" + s], L["cp" + s] @ L["c" + s])
            rel(f"cp{s}=c{s}^+", L["cp" + s], L["c" + s].conj().T)
            rel(f"c{s}^2=0", L["c" + s] @ L["c" + s], 0 * Id)
            rel(f"charge(c{s})=-charge(cp{s})", np.array(G.add(F.sym, [F.loc["c" + s][1], F.loc["cp" + s][1]])), np.array(F.zero))
            if tJ:
                rel(f"c{s} cp{s}=h", L["c" + s] @ L["cp" + s], L["h"])
            else:
                rel(f"{{c{s},cp{s}}}=1", acomm(L["c" + s], L["cp" + s]), Id)
        # statistics between the two species = the exchange sign of their charges (documented per symmetry:
        # anti-commute for Z2, U1, U1xU1xZ2; commute for U1xU1)
        for x, y in (("cu", "cd"), ("cu", "cpd"), ("cpu", "cd"), ("cpu", "cpd")):
            sgn = G.swap_sign(F.sym, F.loc[x][1], F.loc[y][1], F.fer)
            documented = 1 if F.symarg == "U1xU1" else -1
            rel("species-statistics-matches-docstring", np.array(float(sgn)), np.array(float(documented)))
            if tJ and (x, y) in (("cu", "cpd"), ("cpu", "cd")):
                continue        # projected space: c_u cp_d = 0 but cp_d c_u = |d><u| (no double occupancy)
            rel(f"{x} {y}=sgn {y} {x}", L[x] @ L[y], sgn * (L[y] @ L[x]))
        if tJ:
            rel("cu cpd=0", L["cu"] @ L["cpd"], 0 * Id)
            rel("cd cpu=0", L["cd"] @ L["cpu"], 0 * Id)
            rel("cu cd=0", L["cu"] @ L["cd"], 0 * Id)
            rel("h+nu+nd=1", L["h"] + L["nu"] + L["nd"], Id)
            rel("h^2=h", L["h"] @ L["h"], L["h"])
        rel("Sz=(nu-nd)/2", L["Sz"], (L["nu"] - L["nd"]) / 2)
        rel("Sp=cpu cd", L["Sp"], L["cpu"] @ L["cd"])
        rel("Sm=cpd cu", L["Sm"], L["cpd"] @ L["cu"])
        rel("[Sp,Sm]=2Sz", comm(L["Sp"], L["Sm"]), 2 * L["Sz"])
        rel("[Sz,Sp]=Sp", comm(L["Sz"], L["Sp"]), L["Sp"])
        rel("[nu,nd]=0", comm(L["nu"], L["nd"]), 0 * Id)
        occs = ((0, 0), (1, 0), (0, 1)) + (() if tJ else ((1, 1),))
        vs = {o: jw.local_vec(F.ops.vec_n(val=o), F.space) for o in occs}
        for o, v in vs.items():
            rel("nu vec_n", L["nu"] @ v, o[0] * v)
            rel("nd vec_n", L["nd"] @ v, o[1] * v)
            rel("|vec_n|=1", np.vdot(v, v), 1.0)
        rel("|<10|cpu|00>|=1", abs(np.vdot(vs[(1, 0)], L["cpu"] @ vs[(0, 0)])), 1.0)
        rel("|<01|cpd|00>|=1", abs(np.vdot(vs[(0, 1)], L["cpd"] @ vs[(0, 0)])), 1.0)
        if not tJ:
            rel("|<11|cpu cpd|00>|=1", abs(np.vdot(vs[(1, 1)], L["cpu"] @ L["cpd"] @ vs[(0, 0)])), 1.0)
    # inter-site statistics of the model itself on two sites (sanity of the oracle against the documented rule)
    M2 = F.model(2)
    for x in F.charged[:4]:
        for y in F.charged[:4]:
            sgn = G.swap_sign(F.sym, F.loc[x][1], F.loc[y][1], F.fer)
            A, B = M2.embed(*F.loc[x], 0), M2.embed(*F.loc[y], 1)
            rel("two-site exchange sign", A @ B, sgn * (B @ A))
    ctx.count("algebra_cases")
    ctx.case(("algebra", F.tag), True, wit)


# ------------------------------------------------------------------ driver hooks

CASES = {"genhist": case_genhist, "mpo": case_mpo, "latex": case_latex, "m1": case_m1, "m2": case_m2, "mn": case_mn, "rdm": case_rdm,
         "sample": case_sample, "algebra": case_algebra}


def run_case(ctx, idx):
    rng, nprng = ctx.rng(idx), ctx.nprng(idx)
    kind = KINDS[idx % len(KINDS)]
    fi = (idx // len(KINDS)) % len(FAMS)
    if kind in ("latex", "genhist") and fi not in LATEX_FAMS:
        fi = LATEX_FAMS[(idx // len(KINDS)) % len(LATEX_FAMS)]
    F = Fam(fi, nprng)
    ctx.count("kind:" + kind)
    CASES[kind](ctx, F, rng, nprng)


def canaries(ctx):
    """The oracle must fire on corrupted observations (and the model must be self-consistent)."""
    import random
    import yastn.tn.mps as mps
    rng, nprng = random.Random(7), np.random.default_rng(7)
    sub = type(ctx)(ctx.prop, ctx.tier, ctx.seed)
    F = Fam(7, nprng)                                   # SpinlessFermions U1
    N = 4
    M = F.model(N)
    names, pos = ["cp", "c", "n"], [3, 0, 1]
    fs = F.factors(names, pos)
    O = mps.generate_mpo(F.I_mpo(N), [mps.Hterm(0.7, pos, [F.named[n] for n in names])])
    got = jw.mpo_matrix(O, [F.space] * N)
    exp = 0.7 * M.product(fs)
    # model self-consistency: apply-based product == kron-embedded matrix product; strings really present
    emb = M.embed(*fs[0]) @ M.embed(*fs[1]) @ M.embed(*fs[2])
    ctx.canary("model-embed-vs-apply", bool(np.array_equal(emb * 0.7, exp)) and bool(np.max(np.abs(exp)) > 0))
    ctx.canary("model-has-strings", bool(np.max(np.abs(exp - 0.7 * F.model(N, bosonic=True).product(fs))) > 0.5))
    bad = got.copy()
    i = np.unravel_index(int(np.argmax(np.abs(bad))), bad.shape)
    bad[i] = -bad[i]
    cmp_matrix(sub, "value:generate_mpo", "canary", bad, exp, TOL_MPO, None)             # one sign flipped
    ctx.canary("mpo-sign-flip", any(v["key"] == "value:generate_mpo" for v in sub.violations))
    sub.violations.clear()
    cmp_matrix(sub, "value:generate_mpo", "canary", got, 0.7 * F.model(N, bosonic=True).product(fs), TOL_MPO, None)
    ctx.canary("mpo-strings-dropped", any(v["key"] == "value:generate_mpo" for v in sub.violations))
    sub.violations.clear()
    cmp_matrix(sub, "value:generate_mpo", "canary", got, exp, TOL_MPO, None)             # the honest comparison is silent
    ctx.canary("mpo-honest-silent", not sub.violations)
    sub.violations.clear()
    F.cfg.backend.random_seed(11)
    psi = mps.random_mps(F.I_mpo(N), n=2, D_total=4, dtype="complex128")
    vec = jw.mps_vector(psi, [F.space] * N)
    scale = float(np.vdot(vec, vec).real)
    val = mps.measure_2site(psi, F.named["cp"], F.named["c"], psi, bonds=(3, 1))
    fs2 = F.factors(["cp", "c"], [3, 1])
    exp2 = M.expect(vec, fs2, vec)
    cmp_value(sub, "value:measure_2site:i>j", "canary", val, exp2, TOL_VAL * scale, None)
    ctx.canary("m2-honest-silent", not sub.violations and abs(exp2) > 1e-6 * scale)
    cmp_value(sub, "value:measure_2site:i>j", "canary", -val, exp2, TOL_VAL * scale, None)     # reversed-pair sign lost
    ctx.canary("m2-sign-lost", any(v["key"] == "value:measure_2site:i>j" for v in sub.violations))
    sub.violations.clear()
    cmp_value(sub, "value:measure_nsite", "canary", val + 1e-7 * scale, exp2, TOL_VAL * scale, None)
    ctx.canary("value-1e-7-off", bool(sub.violations))
    sub.violations.clear()
    cmp_value(sub, "value:sample:probability", "canary", 0.25 + 1e-8, 0.25, TOL_PROB, None)
    ctx.canary("probability-off", bool(sub.violations))
    sub.violations.clear()
    # algebra canary: a corrupted annihilation operator breaks the CAR
    Fb = Fam(7, nprng)
    m, n = Fb.loc["c"]
    Fb.loc["c"] = (-m * 1.0 + 0.0, n)
    Fb.loc["cp"] = (Fb.loc["cp"][0], n)                 # and a wrong charge
    case_algebra(sub, Fb, rng, nprng)
    ctx.canary("algebra-corrupted", any(v["key"].startswith("algebra:") for v in sub.violations))


def finalize(cov, merged):
    c = merged["counters"]
    cov["kinds"] = {k.split(":", 1)[1]: int(v) for k, v in c.items() if k.startswith("kind:")}
    cov["latex_templates"] = {k.split(":", 1)[1]: int(v) for k, v in c.items() if k.startswith("latex_template:")}
    cov["mpo_modes"] = {k.split(":", 1)[1]: int(v) for k, v in c.items() if k.startswith("mpo_mode:")}
    fams = merged["notes"].get("families", [])
    cov["families_seen"] = len(fams)
    want = len({f[0] + ":" + f[1] + "".join(f":{k}={v}" for k, v in sorted(f[2].items())) for f in FAMS})
    if len(fams) < want:
        cov["inconclusive_reasons"].append(f"families-seen={len(fams)}<{want}")
