"""C08  Canonical forms preserve the state; truncation is honest.

A case draws a local space, MPS or MPO, N and a start state (random harness chain, random_mps/random_mpo, sum of product
states, doubled state a+a, GHZ-like superposition with exactly degenerate Schmidt values; optional complex/negative
prefactor) and runs a random *program* of gauge moves on it.  After every step the represented state is read off by a
harness contraction of the site tensors *including the central block where it sits* (vmon.mpsref.obs_sites) and compared
with the state before the step; isometry of the sites the documentation promises, the norm of the central block, factor
bookkeeping, norm(), Schmidt values and entropies are compared with NumPy (SVD of the reshaped dense state, resolved by
the charge of the left block).  Binding truncation is run on states prepared in the documented opposite canonical form,
both through truncate_ and through a hand-driven sweep over the same public primitives (per-cut multiset check that the
kept Schmidt values are the largest; returned local weight; composition of the weights), and judged with the error
identities   normalize=False: |psi0 - psit| / |psi0| = delta,  factor = |psi0| sqrt(1 - delta^2)
             normalize=True : <psi0^|psit> = sqrt(1 - delta^2).
"""
from __future__ import annotations

import numpy as np

from vmon import dense as D
from vmon import groups as G
from vmon import mpsref as R
from vmon.harness import CaseSkip

PROP = "C08"
RULE = ("case = (local space out of 19 class/symmetry pairs, MPS|MPO, N in 1..6 (7 for d=2; dense size <= 4096), start state kind "
        "(harness chain with random sector sets / random_mps|random_mpo / sum of 2-3 product states / a+a / GHZ-like with exact "
        "ties, optionally with 1-3 site tensors multiplied by 1e-30 .. 1e20 / graded: dominant state + product states with amplitudes 1e-3..1e-10 / harness chain with one bond graded 1..1e-9), prefactor, program of 3-8 steps over canonize_, orthogonalize_site_ (+diagonalize_central_) + absorb_central_, "
        "truncate_ (non-binding), observers (norm, Schmidt values, entropies), must-reject calls, and binding-truncation blocks "
        "(truncate_ or hand-driven sweep; option sets over D_total, tol, D_block, tol_block, truncate_multiplets), directions and "
        "normalize drawn per step); distinct = hash of (space, kind, N, start kind, bond sectors, program with options); "
        "non-trivial = at least one gauge step was compared with the dense state")
ASSUMPTIONS = ["NumPy SVD / norms of dense arrays with <= 4096 elements per side are the truth",
               "state comparisons allow CT*eps*max(|psi|, |factor| prod_n |A_n|_F): rounding errors follow the norms of the site "
               "tensors, which exceed |psi| for ill-conditioned (non-canonical) chains; norm(), Schmidt values, entropies and factors "
               "obtained by sweeping such a chain get the same conditioning factor",
               "the represented state is read by vmon.mpsref.obs_sites (to_numpy of each site tensor with bond legs embedded in "
               "the union of the neighbours' legs + NumPy contraction), cross-checked against to_tensor() when no central block exists",
               "the opposite canonical form required by the error identities is prepared with canonize_ and *verified* by a NumPy "
               "isometry test before the identities are judged",
               "entropies: probabilities below yastn.linalg.entropy's documented cutoff 1e-12 are dropped on both sides; cases with "
               "a probability within a factor 100 of that cutoff are counted, not judged"]

CT = 1.0e3                 # state comparisons: CT * eps * |state|
ISO_TOL = 2e-13            # isometry defects  (observed ~1e-15)
ID_TOL = 1e-12              # error identities, Schmidt values (relative to unit norm; observed ~1e-15)
NONBINDING = ({}, {"D_total": 100000}, {"tol": 1e-15}, {"tol": 1e-15, "D_total": 5000}, {"D_block": 10000},
              {"tol_block": 1e-15}, {"D_total": 4096, "tol": 0, "D_block": 4096}, {"D_total": 4096, "truncate_multiplets": True})
BINDING = ({"D_total": 1}, {"D_total": 2}, {"D_total": 2}, {"D_total": 3}, {"D_total": 4}, {"tol": 0.1}, {"tol": 0.3}, {"tol": 0.6},
           {"D_total": 2, "tol": 0.05}, {"D_total": 3, "tol": 0.2}, {"D_block": 1}, {"D_block": 2}, {"tol_block": 0.3},
           {"D_block": 1, "D_total": 2}, {"D_block": 2, "tol": 0.1}, {"tol_block": 0.2, "D_total": 3},
           {"D_total": 2, "truncate_multiplets": True}, {"tol": 0.2, "truncate_multiplets": True})


# cuts inside a tail of Schmidt values spanning many orders of magnitude (start kinds 'graded', 'graded-harness')
TAIL = ({"tol": 1e-2}, {"tol": 1e-4}, {"tol": 1e-5}, {"tol": 1e-6}, {"tol": 1e-7}, {"tol": 1e-8}, {"tol": 1e-9}, {"tol": 3e-11},
        {"D_total": 1}, {"D_total": 2}, {"D_total": 3}, {"D_total": 4}, {"D_total": 5}, {"D_total": 3, "tol": 1e-7},
        {"tol_block": 1e-5}, {"tol_block": 1e-8}, {"D_block": 1}, {"D_block": 2}, {"tol": 1e-6, "truncate_multiplets": True})
SCALES = (1e-30, 1e-20, 1e-20, 1e-15, 1e-15, 1e-8, 1e8, 1e20)   # amplitudes put on single site tensors (not in psi.factor)
REL_W, ABS_W = 1e-6, 1e-12      # returned weights vs the true relative distance: |d - d_true| <= REL_W * d_true + ABS_W


def rejection(ref, x):
    """| ref - x <x|ref>/<x|x> | / |ref| : relative distance of ``ref`` from the ray of ``x`` (accurate to ~1e-16 absolute)."""
    ref, x = np.asarray(ref).ravel(), np.asarray(x).ravel()
    nx2 = float(np.vdot(x, x).real)
    if nx2 == 0:
        return 1.0
    return R.nrm(ref - x * (np.vdot(x, ref) / nx2)) / R.nrm(ref)


def plan(tier):
    if tier == "thorough":
        return {"cases": 12000, "shards": 16, "budget_s": 800}
    return {"cases": 1200, "shards": 8, "budget_s": 110}


def floors(tier):
    """About a quarter to a third of the counts seen on the unchanged tree (thorough: x5 for 8x the cases)."""
    k = 5 if tier == "thorough" else 1
    f = {"evaluations": 500, "gauge_steps": 4000, "steps_normalize_False": 1700, "state_comparisons": 3600,
         "isometry_checks": 8500, "step:canonize_": 1300, "step:orthogonalize_site_": 650, "step:diagonalize_central_": 350,
         "step:absorb_central_": 600, "step:truncate_nonbinding": 250, "binding_truncations": 180, "binding:truncate_": 330,
         "binding:manual-sweep": 330, "identity:normalize=False": 330, "identity:normalize=True": 330,
         "cut_multiset_checks": 1200, "cut_multiset_binding": 160, "schmidt_cuts_compared": 1400, "entropies_compared": 1400,
         "norm_compared": 300, "is_canonical_checked": 600, "final_to_tensor_crosschecks": 400, "start:ghz": 36,
         "start:doubled": 40, "observers_with_central_block": 150, "norm_with_central_block_on_noncanonical_state": 100,
         "norm_with_central_block_on_noncanonical_state:factor!=1": 30, "twin_checks": 100, "start:zero-state": 15, "start:product": 25, "start:identity": 3,
         "opts:D_block-dict-shuffled": 40, "opts:D_block-dict-shuffled:binding": 20, "defaults:canonize_": 150,
         "defaults:canonize_:all-omitted": 25, "defaults:truncate_": 60, "defaults:orthogonalize_site_": 80,
         "defaults:absorb_central_": 100, "defaults:diagonalize_central_": 40, "states_with_site_amplitude_scale": 150, "states_with_tiny_site_amplitude": 80,
         "states_with_huge_site_amplitude": 40, "states_with_site_amplitude_scale_and_factor": 40, "start:graded": 60, "start:graded-harness": 25, "small_weight_truncations": 16,
         "small_weight_local_truncations": 16, "weights_compared_relatively": 600, "local_weights_compared_relatively": 1200, "start:sum-of-products": 40, "start:random": 40, "rank_deficient_cuts": 30, "tie_cuts": 28,
         "kind:mpo": 120, "N=1": 24, "N=2": 120, "N=6": 60, "must_reject": 70}
    return {name: v * k for name, v in f.items()}


class Stop(Exception):
    """first violation in a program: later steps act on a wrong object."""


# ------------------------------------------------------------------ start states

def product_chain(rng, nprng, loc, N, kind, q, dtype, basis=False):
    """Bond-dimension-one harness chain of charge q; basis=True -> a single non-zero amplitude per site (basis state)."""
    if loc.sym == "dense":
        # gen_chain draws dense bonds of dimension 1..dmax+1; a product state needs dimension one
        one = D.HLeg("dense", -1, [((), 1)])
        legs = [one, loc.hleg(1), one.conj()] + ([loc.hleg(-1)] if kind == "mpo" else [])
        sites = [D.gen_tensor(rng, nprng, "dense", legs=legs, n=(), dtype=dtype, density=1.0) for _ in range(N)]
        ch = R.HChain(loc, kind, sites, q=())
    else:
        ch = R.gen_chain(rng, nprng, loc, N, kind, q=q, dtype=dtype, dmax=1, extra=0.0, density=1.0)
    if sum(len(h.blocks) for h in ch.sites) != N:
        # several physical blocks compatible with the backbone: keep one per site so that it is a product of sector vectors
        for h in ch.sites:
            k0 = rng.choice(sorted(h.blocks))
            h.blocks = {k0: h.blocks[k0]}
    if basis:
        for h in ch.sites:
            (k0, blk), = h.blocks.items()
            new = np.zeros_like(blk)
            new.reshape(-1)[rng.randrange(blk.size)] = 1.0
            h.blocks = {k0: new}
    return ch


class Prog:
    def __init__(self, ctx, idx):
        self.ctx = ctx
        self.rng, self.nprng = ctx.rng(idx), ctx.nprng(idx)
        rng = self.rng
        name, sym = R.SPACES[idx % len(R.SPACES)]
        self.loc = loc = R.local(name, sym)
        self.kind = "mpo" if rng.random() < 0.25 else "mps"
        cap = 4096
        if self.kind == "mps":
            nmax = min(R.max_sites(loc, "mps", cap), 7 if loc.d == 2 else 6)
        else:
            nmax = R.max_sites(loc, "mpo", 64)
            while nmax > 1 and len(loc.charges) ** (2 * nmax) > 5000:
                nmax -= 1
        r = rng.random()
        self.N = 1 if r < 0.06 else (2 if r < 0.16 else rng.randint(min(2, nmax), nmax))
        self.nrp = 1 if self.kind == "mps" else 2
        self.steps = []
        self.psi = None
        self.v = None
        self.scales = None
        ctx.count(f"N={self.N}")
        ctx.count("kind:" + self.kind)
        ctx.count("space:" + loc.tag())

    # ---- start ------------------------------------------------------------
    def start(self):
        import yastn.tn.mps as mps
        rng, nprng, loc, N, kind, ctx = self.rng, self.nprng, self.loc, self.N, self.kind, self.ctx
        adm = R.admissible_charges(loc, N, kind)
        zero = G.zero(loc.sym)
        q = zero if (kind == "mpo" and rng.random() < 0.7) else rng.choice(adm)
        self.q = q
        dtype = rng.choice(("float64", "complex128"))
        how = rng.choice(("harness", "harness", "harness", "random", "sum-of-products", "doubled", "ghz", "graded", "graded",
                          "graded-harness", "product"))
        if how == "product" and kind == "mpo" and rng.random() < 0.5:
            how, q = "identity", zero
            self.q = q
        if how == "random" and kind == "mpo" and q != zero:
            how = "harness"
        desc = None
        if how == "harness":
            ch = R.gen_chain(rng, nprng, loc, N, kind, q=q, dtype=dtype, dmax=rng.choice((2, 3, 3, 4)) if N <= 4 else rng.choice((2, 3)))
            psi = ch.to_yastn()
            desc = ch.bond_desc()
        elif how == "random":
            import yastn
            loc.cfg.backend.random_seed(rng.getrandbits(32))
            I = mps.product_mpo(loc.ops.I(), N)
            try:
                if kind == "mps":
                    psi = mps.random_mps(I, n=q, D_total=rng.choice((2, 4, 6, 9)), sigma=rng.choice((1, 2)), dtype=dtype)
                else:
                    psi = mps.random_mpo(I, D_total=rng.choice((2, 4, 6)), dtype=dtype)
            except yastn.YastnError as e:
                if "zero state" not in str(e):
                    raise
                ctx.count("random_start_zero_state_rejected")
                raise CaseSkip
            desc = [sorted((list(t), d) for t, d in tD.items()) for tD in psi.get_bond_charges_dimensions()]
        elif how == "product":
            ch = product_chain(rng, nprng, loc, N, kind, q, dtype)          # bond dimension one everywhere
            psi = ch.to_yastn()
            desc = ch.bond_desc()
        elif how == "identity":
            psi = mps.product_mpo(loc.ops.I(), N)                           # the identity operator
            desc = "product_mpo(I, N)"
        elif how == "graded":
            # a dominant state plus product states with amplitudes 1e-3 .. 1e-10 (each part normalised): Schmidt spectra spanning
            # many orders of magnitude, so that tol / D_total cut inside the tail and discard weights of 1e-12 .. 1e-6
            base = R.gen_chain(rng, nprng, loc, N, kind, q=q, dtype=dtype, dmax=rng.choice((1, 1, 2)), extra=0.3)
            parts = [(base, 1.0 / R.nrm(base.dense()))]
            for _ in range(rng.choice((2, 3, 3, 4))):
                ch = product_chain(rng, nprng, loc, N, kind, q, dtype, basis=rng.random() < 0.3)
                amp = 10.0 ** (-rng.uniform(3, 10)) * rng.choice((1.0, -1.0, 1j if dtype == "complex128" else 1.0))
                parts.append((ch, amp / R.nrm(ch.dense())))
            psi = mps.add(*[p[0].to_yastn() for p in parts], amplitudes=[p[1] for p in parts])
            desc = {"amplitudes": [abs(p[1]) * R.nrm(p[0].dense()) for p in parts], "bonds": [p[0].bond_desc() for p in parts]}
        elif how == "graded-harness":
            # one bond of a random chain gets graded sector weights 1 .. 1e-9
            ch = R.gen_chain(rng, nprng, loc, N, kind, q=q, dtype=dtype, dmax=rng.choice((2, 3)), extra=0.9, density=1.0)
            if N > 1:
                j = rng.randrange(1, N)
                grades = {}
                h = ch.sites[j]
                for t, _ in h.legs[0].sectors:
                    grades[t] = 10.0 ** (-rng.choice((0, 0, 2, 3, 4, 5, 6, 7, 8, 9)))
                if h.legs[0].sectors and all(g < 1 for g in grades.values()):
                    grades[h.legs[0].sectors[0][0]] = 1.0
                col = [10.0 ** (-rng.choice((0, 0, 0, 3, 5, 7, 9))) for _ in range(h.legs[0].dim)]
                offs = h.legs[0].offsets()
                for key, blk in list(h.blocks.items()):
                    lo, hi = offs[key[0]]
                    w = np.array(col[lo:hi]) * grades[key[0]]
                    h.blocks[key] = blk * w.reshape((-1,) + (1,) * (blk.ndim - 1))
            psi = ch.to_yastn()
            desc = ch.bond_desc()
        elif how == "doubled":
            ch = R.gen_chain(rng, nprng, loc, N, kind, q=q, dtype=dtype, dmax=2)
            a = ch.to_yastn()
            psi = a + a if rng.random() < 0.6 else mps.add(a, a, a, amplitudes=[1.0, 0.5, -0.25])
            desc = ch.bond_desc()
        else:
            k = 2 if how == "ghz" else rng.choice((2, 3, 3))
            parts, tries = [], 0
            while len(parts) < k and tries < 12:
                tries += 1
                ch = product_chain(rng, nprng, loc, N, kind, q, dtype, basis=(how == "ghz"))
                dv = ch.dense()
                if how == "ghz" and any(abs(np.vdot(dv, p[1])) > 1e-12 for p in parts):
                    continue
                parts.append((ch, dv))
            if len(parts) < 2:
                how = "harness"
                ch = R.gen_chain(rng, nprng, loc, N, kind, q=q, dtype=dtype, dmax=2)
                psi = ch.to_yastn()
                desc = ch.bond_desc()
            else:
                amps = [1.0] * len(parts) if how == "ghz" else [rng.choice((1.0, -0.5, 2.0, 0.5j)) for _ in parts]
                if how == "ghz" and rng.random() < 0.5:
                    amps = [1.0, -1.0] if dtype == "float64" else [1.0, 1j]
                psi = mps.add(*[p[0].to_yastn() for p in parts], amplitudes=amps)
                desc = [p[0].bond_desc() for p in parts]
        self.how = how
        ctx.count("start:" + how)
        pre = rng.choice((None, None, 2.5, -0.5, 0.3 + 0.4j, 1.5j))
        if pre is not None:
            psi = pre * psi
        self.pre = pre
        self.psi = psi
        self.desc = desc
        # amplitude scale: one or several *site tensors* carry a tiny / huge amplitude that is not held in psi.factor.
        # Everything below is judged relatively to the dense state, so the property must hold at every scale.
        self.scales = None
        if rng.random() < 0.4:
            v0, bad = R.obs_sites(psi, loc)
            for _ in range(20):
                sites = rng.sample(range(N), min(N, rng.choice((1, 1, 2, 3))))
                sc = {n: rng.choice(SCALES) * rng.choice((1, 1, 1, -1)) for n in sites}
                if -45 <= sum(np.log10(abs(x)) for x in sc.values()) <= 25:
                    break
            else:
                sc = {rng.randrange(N): 1e-20}
            for n, x in sorted(sc.items()):
                psi[n] = x * psi[n]
            self.scales = {str(n): x for n, x in sorted(sc.items())}
            ctx.count("states_with_site_amplitude_scale")
            if min(abs(x) for x in sc.values()) <= 1e-15:
                ctx.count("states_with_tiny_site_amplitude")
            if max(abs(x) for x in sc.values()) >= 1e8:
                ctx.count("states_with_huge_site_amplitude")
            if psi.factor != 1:
                ctx.count("states_with_site_amplitude_scale_and_factor")
        v, bad = R.obs_sites(psi, loc)
        if bad:
            ctx.violation("observation:site-legs-inconsistent", f"start state: {bad}")
            raise Stop
        if self.scales is not None:
            # harness-side truth: the state before scaling times the product of the scales
            prod = float(np.prod(list(self.scales.values())))
            if not ctx.margin("obs:site-scaling", R.maxabs(v - v0 * prod), 2048 * R.EPS * max(R.nrm(v0) * abs(prod), 1e-300)):
                ctx.violation("observation:site-scaling", f"start: psi[n] = x * psi[n] with {self.scales} did not scale the dense state by {prod}")
                raise Stop
            v = v0 * prod
        a = R.obs_tensor(psi, loc)
        if not ctx.margin("obs:to_tensor-vs-sites", R.maxabs(a - v), CT * R.EPS * max(R.nrm(v), R.cond_scale(psi), 1e-300)):
            ctx.violation("observation:to_tensor-vs-site-contraction", f"start: to_tensor differs from site contraction by {R.maxabs(a - v):.2e}")
            raise Stop
        if not R.nrm(v) > 1e-8 * R.cond_scale(psi):
            raise CaseSkip       # vanishing or cancelling start
        self.v = v
        self.cond_rel = max(1.0, self.cond_scale() / R.nrm(v))

    # ---- how calls are spelled ------------------------------------------------
    def call(self, name, f, defaults, *args, **vals):
        """Call ``f``; keyword arguments that equal their documented default are omitted half of the time."""
        kw, omitted = {}, False
        for k, v in vals.items():
            if k in defaults and defaults[k] == v and type(defaults[k]) is type(v) and self.rng.random() < 0.5:
                omitted = True
                continue
            kw[k] = v
        if omitted:
            self.ctx.count("defaults:" + name)
            if not any(k in defaults for k in kw):
                self.ctx.count("defaults:" + name + ":all-omitted")
        return f(*args, **kw)

    def dblock_dict(self, binding):
        """opts_svd with per-sector limits given as a dictionary over every charge a bond of this chain can carry, built in
        shuffled insertion order."""
        ts = sorted(set().union(*R.reach_sets(self.loc, self.N, self.kind)))
        self.rng.shuffle(ts)
        opts = {"D_block": {t: (self.rng.randint(1, 2) if binding else 10000) for t in ts}}
        if self.rng.random() < 0.4:
            opts["D_total"] = self.rng.choice((2, 3, 4)) if binding else 100000
        self.ctx.count("opts:D_block-dict-shuffled" + (":binding" if binding else ""))
        return opts

    # ---- observation & comparisons ------------------------------------------
    def obs(self, what):
        d, bad = R.obs_sites(self.psi, self.loc)
        if bad:
            self.ctx.violation("observation:site-legs-inconsistent", f"{what}: {bad}", self.witness())
            raise Stop
        return d

    def witness(self):
        return {"space": self.loc.tag(), "kind": self.kind, "N": self.N, "start": self.how, "prefactor": self.pre, "site_scales": self.scales,
                "q": self.q,
                "start_structure": self.desc, "program": self.steps}

    def cond_scale(self):
        """|factor| * prod |A_n|_F: the size of the rounding errors of a step is set by the norms of the tensors, which for a
        non-canonical chain exceed the norm of the state they represent."""
        return R.cond_scale(self.psi)

    def same_state(self, key, what, obs, keep_norm=True):
        """obs must equal the tracked state (keep_norm) or be a positive multiple of it (direction only)."""
        ctx = self.ctx
        ctx.count("state_comparisons")
        n0, n1 = R.nrm(self.v), R.nrm(obs)
        cond = max(self.cond_scale(), self.cond_rel * n0)           # after / before the step
        if keep_norm:
            err = R.maxabs(obs - self.v)
            if not ctx.margin("state:" + key.split(":")[0], err, CT * R.EPS * max(n0, cond)):
                ctx.violation("state-changed:" + key, f"{what}: represented state moved by {err:.3e} (|psi| = {n0:.3e}, |psi'| = {n1:.3e})",
                              {"case": self.witness(), "before": self.v, "after": obs})
                raise Stop
        else:
            if n1 == 0:
                ctx.violation("state-changed:" + key, f"{what}: state vanished", self.witness())
                raise Stop
            err = R.maxabs(obs / n1 - self.v / n0)
            if not ctx.margin("direction:" + key.split(":")[0], err, CT * R.EPS * max(1.0, cond / n1, self.cond_rel)):
                ctx.violation("direction-changed:" + key, f"{what}: normalised state moved by {err:.3e} (not a positive multiple of the "
                              f"state before; |psi| = {n0:.3e}, |psi'| = {n1:.3e})", {"case": self.witness(), "before": self.v, "after": obs})
                raise Stop
        self.v = obs
        self.cond_rel = max(1.0, self.cond_scale() / max(n1, 1e-300))      # conditioning of the representation now held

    def isometry(self, key, what, sites, to):
        ctx = self.ctx
        for n in sites:
            ctx.count("isometry_checks")
            dfc = R.site_isometry_defect(self.psi[n], to, self.nrp)
            if not ctx.margin("isometry:" + key, dfc, ISO_TOL):
                ctx.violation("not-isometric:" + key, f"{what}: site {n} is not an isometry towards '{to}' (defect {dfc:.3e})", self.witness())
                raise Stop

    def unit_norm(self, key, what, obs, rel=1.0):
        n1 = R.nrm(obs)
        if not self.ctx.margin("unit-norm:" + key, abs(n1 - 1.0), ID_TOL * rel):
            self.ctx.violation("norm-not-one:" + key, f"{what}: normalize=True but the state has norm {n1!r}", self.witness())
            raise Stop

    def factor_is(self, key, what, expected, exact=False, rel=1.0):
        f = self.psi.factor
        if exact:
            ok = (f == expected)
        else:
            ok = self.ctx.margin("factor:" + key, abs(f - expected), ID_TOL * rel * max(abs(expected), 1e-300))
        if not ok:
            self.ctx.violation("factor:" + key, f"{what}: factor is {f!r}, expected {expected!r}", self.witness())
            raise Stop

    def central_norm(self, key, what):
        C = self.psi.A[self.psi.pC]
        n = float(C.norm())
        if not self.ctx.margin("central-norm:" + key, abs(n - 1.0), ID_TOL):
            self.ctx.violation("central-block-not-normalised:" + key, f"{what}: central block has norm {n!r}", self.witness())
            raise Stop

    # ---- steps ------------------------------------------------------------------
    def step_canonize(self):
        rng, psi, ctx = self.rng, self.psi, self.ctx
        to, nz = rng.choice(("first", "last")), rng.random() < 0.5
        self.steps.append(["canonize_", to, nz])
        n0, cr0 = R.nrm(self.v), self.cond_rel          # conditioning of the representation the sweep starts from
        out = self.call("canonize_", psi.canonize_, {"to": "first", "normalize": True}, to=to, normalize=nz)
        if out is not psi:
            ctx.violation("canonize_:return", "canonize_ does not return self")
        self.count_step("canonize_", nz)
        what = f"canonize_(to={to}, normalize={nz})"
        if psi.pC is not None or len(psi.A) != self.N:
            ctx.violation("central-block-left:canonize_", f"{what}: pC={psi.pC}, {len(psi.A)} tensors", self.witness())
            raise Stop
        obs = self.obs(what)
        self.same_state("canonize_", what, obs, keep_norm=not nz)
        self.isometry("canonize_", what, range(self.N), to)
        if nz:
            self.unit_norm("canonize_", what, obs, rel=cr0)
            self.factor_is("canonize_:normalize", what, 1, exact=True)
        else:
            self.factor_is("canonize_", what, n0, rel=cr0)
        if not psi.is_canonical(to=to, tol=1e-10):
            ctx.violation("is_canonical-disagrees", f"{what}: NumPy finds every site isometric but is_canonical(to={to}) is False", self.witness())
        ctx.count("is_canonical_checked")

    def count_step(self, name, nz=None, gauge=True):
        self.ctx.count("step:" + name)
        if gauge:
            self.ctx.count("gauge_steps")
            if nz is False:
                self.ctx.count("steps_normalize_False")
            elif nz is True:
                self.ctx.count("steps_normalize_True")

    def step_site(self):
        """orthogonalize_site_ [+ diagonalize_central_ non-binding] [+ absorb_central_]."""
        rng, psi, ctx, N = self.rng, self.psi, self.ctx, self.N
        n, to, nz = rng.randrange(N), rng.choice(("first", "last")), rng.random() < 0.5
        self.steps.append(["orthogonalize_site_", n, to, nz])
        self.call("orthogonalize_site_", psi.orthogonalize_site_, {"to": "first", "normalize": True}, n, to=to, normalize=nz)
        self.count_step("orthogonalize_site_", nz)
        what = f"orthogonalize_site_({n}, to={to}, normalize={nz})"
        exp_pC = (n - 1, n) if to == "first" else (n, n + 1)
        if psi.pC != exp_pC or exp_pC not in psi.A:
            ctx.violation("central-block-position:orthogonalize_site_", f"{what}: pC={psi.pC}, expected {exp_pC}", self.witness())
            raise Stop
        obs = self.obs(what)
        self.same_state("orthogonalize_site_", what, obs, keep_norm=not nz)
        self.isometry("orthogonalize_site_", what, [n], to)
        self.central_norm("orthogonalize_site_", what)
        if nz:
            self.factor_is("orthogonalize_site_:normalize", what, 1, exact=True)
        if rng.random() < 0.5:
            self.observers_with_central()
        if rng.random() < 0.55:
            self.step_diagonalize()
            if rng.random() < 0.3:
                self.observers_with_central()
        if rng.random() < 0.85:
            self.step_absorb()

    def observers_with_central(self):
        """Read-only observers called *while a central block is present*.  orthogonalize_site_ may be called on any state, so the
        sites beside the block are in general not canonical and the block alone does not hold the norm: everything is judged
        against the dense state at this moment (central block contracted where it sits)."""
        psi, ctx, rng = self.psi, self.ctx, self.rng
        pC = psi.pC
        left = [R.site_isometry_defect(psi[n], "last", self.nrp) for n in range(0, pC[0] + 1)]
        right = [R.site_isometry_defect(psi[n], "first", self.nrp) for n in range(pC[1], self.N)]
        noncanon = max(left + right + [0.0]) > 1e-6
        ctx.count("observers_with_central_block")
        if noncanon:
            ctx.count("norm_with_central_block_on_noncanonical_state")
            if psi.factor != 1:
                ctx.count("norm_with_central_block_on_noncanonical_state:factor!=1")
        self.step_observers(central=True)
        if psi.pC != pC or pC not in psi.A:
            ctx.violation("central-block-moved-by-observer", f"norm/get_Schmidt_values/get_entropy moved the central block {pC} -> {psi.pC}",
                          self.witness())
            raise Stop
        # to_tensor() ignores the central block by construction; on a shallow copy that absorbed it, it must give this state
        cp = psi.shallow_copy()
        cp.absorb_central_(to=rng.choice(("first", "last")))
        a = R.obs_tensor(cp, self.loc)
        if not ctx.margin("obs:to_tensor-after-absorb", R.maxabs(a - self.v),
                          CT * R.EPS * max(R.nrm(self.v), self.cond_scale(), self.cond_rel * R.nrm(self.v))):
            ctx.violation("observation:to_tensor-after-absorb-on-copy", f"central block at {pC}: shallow_copy + absorb_central_ + to_tensor differs "
                          f"from the site contraction by {R.maxabs(a - self.v):.3e}", self.witness())
            raise Stop

    def step_diagonalize(self, opts=None):
        rng, psi, ctx = self.rng, self.psi, self.ctx
        opts = dict(rng.choice(NONBINDING)) if opts is None else opts
        if rng.random() < 0.12:
            opts = self.dblock_dict(binding=False)
        nz = rng.random() < 0.5
        self.steps.append(["diagonalize_central_", opts, nz])
        pC = psi.pC
        dl = self.call("diagonalize_central_", psi.diagonalize_central_, {"normalize": True}, opts_svd=opts, normalize=nz)
        self.count_step("diagonalize_central_", nz)
        what = f"diagonalize_central_({opts}, normalize={nz}) at {pC}"
        if psi.pC != pC:
            ctx.violation("central-block-position:diagonalize_central_", f"{what}: pC moved to {psi.pC}", self.witness())
            raise Stop
        obs = self.obs(what)
        self.same_state("diagonalize_central_", what, obs, keep_norm=not nz)
        self.central_norm("diagonalize_central_", what)
        if not ctx.margin("discarded:nonbinding", abs(dl), 1e-9):
            ctx.violation("discarded-weight:nonbinding:diagonalize_central_", f"{what}: nothing but null values can be cut, returned {dl}", self.witness())
        if nz:
            self.factor_is("diagonalize_central_:normalize", what, 1, exact=True)
        if 0 <= pC[0] and pC[1] <= self.N - 1 and not psi.A[pC].isdiag:
            ctx.violation("central-block-not-diagonal", f"{what}: interior central block is not a diagonal tensor", self.witness())

    def step_absorb(self):
        rng, psi, ctx = self.rng, self.psi, self.ctx
        to = rng.choice(("first", "last"))
        self.steps.append(["absorb_central_", to])
        had = psi.pC
        self.call("absorb_central_", psi.absorb_central_, {"to": "last"}, to=to)
        self.count_step("absorb_central_", None)
        what = f"absorb_central_(to={to}) from {had}"
        if psi.pC is not None or len(psi.A) != self.N:
            ctx.violation("central-block-left:absorb_central_", f"{what}: pC={psi.pC}, {len(psi.A)} tensors", self.witness())
            raise Stop
        self.same_state("absorb_central_", what, self.obs(what), keep_norm=True)

    def step_truncate_nonbinding(self):
        rng, psi, ctx = self.rng, self.psi, self.ctx
        to, nz = rng.choice(("first", "last")), rng.random() < 0.5
        opts = dict(rng.choice(NONBINDING)) if rng.random() > 0.12 else self.dblock_dict(binding=False)
        self.steps.append(["truncate_", to, opts, nz])
        n0, cr0 = R.nrm(self.v), self.cond_rel
        dl = self.call("truncate_", psi.truncate_, {"to": "last", "normalize": True}, to=to, opts_svd=opts, normalize=nz)
        self.count_step("truncate_nonbinding", nz)
        what = f"truncate_(to={to}, {opts}, normalize={nz})"
        if psi.pC is not None or len(psi.A) != self.N:
            ctx.violation("central-block-left:truncate_", f"{what}: pC={psi.pC}", self.witness())
            raise Stop
        obs = self.obs(what)
        # an arbitrary (non-canonical) start is allowed here: with nothing to cut, every local SVD is exact
        self.same_state("truncate_:nonbinding", what, obs, keep_norm=not nz)
        self.isometry("truncate_", what, range(self.N), to)
        if not ctx.margin("discarded:nonbinding", abs(dl), 1e-9):
            ctx.violation("discarded-weight:nonbinding:truncate_", f"{what}: returned {dl}", self.witness())
        if nz:
            self.unit_norm("truncate_", what, obs, rel=cr0)
            self.factor_is("truncate_:normalize", what, 1, exact=True)
        else:
            self.factor_is("truncate_", what, n0, rel=cr0)

    def step_observers(self, central=False):
        """norm(), get_Schmidt_values(), get_entropy(alpha): compared with the dense state; the object must not move."""
        rng, psi, ctx, loc, N = self.rng, self.psi, self.ctx, self.loc, self.N
        self.steps.append(["observers" + (f" with central block at {psi.pC}" if central else "")])
        n0, cr0 = R.nrm(self.v), self.cond_rel
        nrm = psi.norm()
        ctx.count("norm_compared")
        if not ctx.margin("norm", abs(nrm - n0), ID_TOL * cr0 * n0):
            ctx.violation("norm-value" + (":central-block-present" if central else ""),
                          f"norm() = {nrm!r}, dense norm {n0!r}" + (f" (central block at {psi.pC}, factor {psi.factor!r})" if central else ""),
                          self.witness())
            raise Stop
        sv = psi.get_Schmidt_values()
        if len(sv) != N + 1:
            ctx.violation("schmidt:count", f"get_Schmidt_values returned {len(sv)} spectra for N={N}", self.witness())
            raise Stop
        vhat = self.v / n0
        specs = []
        for cut in range(N + 1):
            spec = R.all_values(R.sector_spectra(vhat, loc, N, cut))
            specs.append(spec)
            s = sv[cut]
            if not s.isdiag:
                ctx.violation("schmidt:not-diagonal", f"Schmidt values at cut {cut} are not a diagonal tensor", self.witness())
                raise Stop
            got = np.sort(np.asarray(s.to_numpy().diagonal(), dtype=float))[::-1] if s.size else np.zeros(0)
            m = max(len(got), len(spec))
            a, b = np.zeros(m), np.zeros(m)
            a[:len(got)] = got
            b[:len(spec)] = spec
            err = R.maxabs(a - b)
            ctx.count("schmidt_cuts_compared")
            if np.count_nonzero(spec > 1e-9) < min(len(got), len(spec)):
                ctx.count("rank_deficient_cuts")
            if len(spec) > 1 and np.any(np.abs(np.diff(spec[spec > 1e-9])) < 1e-12):
                ctx.count("tie_cuts")
            if not ctx.margin("schmidt", err, ID_TOL * cr0):
                ctx.violation("schmidt-values", f"cut {cut}: Schmidt values {got[:6]} vs dense SVD {spec[:6]} (max diff {err:.3e})", self.witness())
                raise Stop
        alpha = rng.choice((1, 1, 2, 0.5, 3))
        ent = psi.get_entropy(alpha=alpha) if alpha != 1 or rng.random() < 0.5 else psi.get_entropy()
        if len(ent) != N + 1:
            ctx.violation("entropy:count", f"get_entropy returned {len(ent)} numbers for N={N}", self.witness())
            raise Stop
        for cut in range(N + 1):
            ref, near = R.entropy_ref(specs[cut] ** 2, alpha)
            if near:
                ctx.count("entropy_skipped_near_cutoff")
                continue
            ctx.count("entropies_compared")
            if not ctx.margin("entropy", abs(float(ent[cut]) - ref), 1e-11 * cr0):
                ctx.violation("entropy-value", f"cut {cut}, alpha={alpha}: get_entropy {float(ent[cut])!r} vs dense {ref!r}", self.witness())
                raise Stop
        self.count_step("observers", gauge=False)
        # the observers work on shallow copies: the object itself must still represent the same state
        self.same_state("observers", "norm/get_Schmidt_values/get_entropy", self.obs("observers"), keep_norm=True)

    def step_must_reject(self):
        import yastn
        psi, ctx, rng = self.psi, self.ctx, self.rng
        which = rng.choice(("second-central", "bad-to", "truncate-no-opts"))
        self.steps.append(["must-reject", which])
        try:
            if which == "second-central":
                cp = psi.shallow_copy()
                cp.orthogonalize_site_(rng.randrange(self.N), to="last")
                cp.orthogonalize_site_(rng.randrange(self.N), to=rng.choice(("first", "last")))
            elif which == "bad-to":
                psi.shallow_copy().orthogonalize_site_(0, to="center")
            else:
                psi.shallow_copy().truncate_(to="last")
        except yastn.YastnError:
            ctx.count("must_reject")
        else:
            ctx.violation("must-reject-accepted:" + which, f"documented rejection did not happen ({which})", self.witness())

    # ---- binding truncation -----------------------------------------------------
    def prepare_opposite(self, to):
        """Documented precondition: canonical form opposite to the sweep; verified by NumPy."""
        psi, rng = self.psi, self.rng
        opp = "first" if to == "last" else "last"
        nz0 = rng.random() < 0.4
        self.steps.append(["canonize_", opp, nz0, "(prepare)"])
        psi.canonize_(to=opp, normalize=nz0)
        self.count_step("canonize_", nz0)
        what = f"canonize_(to={opp}, normalize={nz0}) before truncation"
        obs = self.obs(what)
        self.same_state("canonize_", what, obs, keep_norm=not nz0)
        self.isometry("canonize_", what, range(self.N), opp)
        return obs

    def step_binding(self):
        rng, ctx = self.rng, self.ctx
        to, nz = rng.choice(("first", "last")), rng.random() < 0.5
        opts = dict(rng.choice(TAIL if (self.how.startswith("graded") and rng.random() < 0.8) else BINDING))
        if rng.random() < 0.1:
            opts = self.dblock_dict(binding=True)
        manual = rng.random() < 0.5
        psi0 = self.prepare_opposite(to)
        n0 = R.nrm(psi0)
        if not n0 > 0:
            ctx.violation("state-changed:canonize_", "state vanished while preparing the canonical form", self.witness())
            raise Stop
        self.steps.append(["binding-" + ("manual-sweep" if manual else "truncate_"), to, opts, nz])
        what = f"{'manual sweep' if manual else 'truncate_'}(to={to}, {opts}, normalize={nz}) on a state canonized to the opposite side"
        ref = self.psi.shallow_copy()
        if manual:
            delta = self.manual_sweep(to, opts, nz, what)
            dref = ref.truncate_(to=to, opts_svd=dict(opts), normalize=nz)
            if not ctx.margin("composition", abs(dref - delta), 1e-13):
                ctx.violation("discarded-weight:composition", f"{what}: truncate_ returned {dref!r}, composing the local weights returned by "
                              f"diagonalize_central_ as 1-prod(1-d_j^2) gives {delta!r}", self.witness())
                raise Stop
            ctx.count("binding:manual-sweep")
        else:
            delta = self.call("truncate_", self.psi.truncate_, {"to": "last", "normalize": True}, to=to, opts_svd=opts, normalize=nz)
            ctx.count("binding:truncate_")
        self.count_step("truncate_binding", nz)
        psi = self.psi
        if psi.pC is not None or len(psi.A) != self.N:
            ctx.violation("central-block-left:truncate_", f"{what}: pC={psi.pC}", self.witness())
            raise Stop
        psit = self.obs(what)
        nt = R.nrm(psit)
        if delta > 1e-10:
            ctx.count("binding_truncations")
        if not (0 <= delta <= 1 + 1e-12):
            ctx.violation("discarded-weight:range", f"{what}: returned {delta!r}", self.witness())
            raise Stop
        keep = float(np.sqrt(max(0.0, 1 - delta ** 2)))
        self.isometry("truncate_", what, range(self.N), to)
        # relative accuracy of the reported error (both normalisations): psi_t is a projection of psi0, so the distance of psi0
        # from the ray of psi_t is the true relative truncation error -- also when it is 1e-12 .. 1e-6
        d_true = rejection(psi0, psit)
        ctx.count("weights_compared_relatively")
        if 1e-12 < d_true < 1e-6:
            ctx.count("small_weight_truncations")
        if not ctx.margin("weight:relative", abs(delta - d_true), REL_W * d_true + ABS_W):
            ctx.violation("discarded-weight:relative-accuracy:truncate_",
                          f"{what}: returned discarded weight {delta!r}, true relative distance |psi0 - P psi0|/|psi0| = {d_true!r} "
                          f"(relative deviation {abs(delta - d_true) / max(d_true, 1e-300):.2e})", self.witness())
            raise Stop
        if nz:
            ov = np.vdot(psi0 / n0, psit)
            ctx.count("identity:normalize=True")
            if not ctx.margin("identity:overlap", abs(ov - keep), ID_TOL):
                ctx.violation("truncation-error-identity:normalize=True",
                              f"{what}: <psi0^|psi_t> = {ov!r} but sqrt(1-delta^2) = {keep!r} (returned delta = {delta!r})", self.witness())
                raise Stop
            self.unit_norm("truncate_", what, psit)
            self.factor_is("truncate_:normalize", what, 1, exact=True)
        else:
            dist = R.nrm(psi0 - psit) / n0
            ctx.count("identity:normalize=False")
            if not ctx.margin("identity:distance", abs(dist - delta), ID_TOL):
                ctx.violation("truncation-error-identity:normalize=False:distance",
                              f"{what}: |psi0 - psi_t| / |psi0| = {dist!r} but the returned discarded weight is {delta!r}", self.witness())
                raise Stop
            if not ctx.margin("identity:factor", abs(psi.factor - n0 * keep), ID_TOL * n0):
                ctx.violation("truncation-error-identity:normalize=False:factor",
                              f"{what}: factor = {psi.factor!r} but |psi0| sqrt(1-delta^2) = {n0 * keep!r}", self.witness())
                raise Stop
            if not ctx.margin("identity:norm", abs(nt - n0 * keep), ID_TOL * n0):
                ctx.violation("truncation-error-identity:normalize=False:norm",
                              f"{what}: |psi_t| = {nt!r} but |psi0| sqrt(1-delta^2) = {n0 * keep!r}", self.witness())
                raise Stop
        if manual:
            # the hand-driven sweep and truncate_ run the same primitives: same state
            vref, bad = R.obs_sites(ref, self.loc)
            if bad or not ctx.margin("state:manual-vs-truncate_", R.maxabs(vref - psit), CT * R.EPS * max(nt, 1e-300)):
                ctx.violation("state-changed:truncate_-vs-manual-sweep", f"{what}: truncate_ and the hand-driven sweep end in different states", self.witness())
                raise Stop
        self.v = psit

    def manual_sweep(self, to, opts, nz, what):
        """truncate_'s loop driven from outside, with a dense look at every cut."""
        psi = self.psi
        global_only = not ({"D_block", "tol_block"} & set(opts))
        d2 = 0.0
        for n in psi.sweep(to=to):
            psi.orthogonalize_site_(n=n, to=to, normalize=nz)
            before = self.obs(what)
            cut = psi.pC[1]
            dl = psi.diagonalize_central_(opts_svd=dict(opts), normalize=nz)
            after = self.obs(what)
            self.cut_check(what, cut, before, after, dl, nz, global_only)
            d2 = dl ** 2 + d2 - d2 * dl ** 2
            psi.absorb_central_(to=to)
        return d2 ** 0.5

    def cut_check(self, what, cut, before, after, dl, nz, global_only):
        """Across ``cut``: the spectrum after the local truncation is, sector by sector, the top of the spectrum before;
        with only global options no discarded value exceeds a kept one; dl is the relative weight of what was dropped."""
        ctx, loc, N = self.ctx, self.loc, self.N
        ctx.count("cut_multiset_checks")
        sb = R.sector_spectra(before, loc, N, cut)
        sa = R.sector_spectra(after, loc, N, cut)
        nb = float(np.sqrt(sum(float(np.sum(v ** 2)) for v in sb.values())))
        na = float(np.sqrt(sum(float(np.sum(v ** 2)) for v in sa.values())))
        if nb == 0 or na == 0:
            ctx.violation("cut:state-vanished", f"{what}: cut {cut}: norm before {nb}, after {na}", self.witness())
            raise Stop
        thr = 1e-14
        kept, disc, got = [], [], []
        for c in sorted(set(sb) | set(sa)):
            b = np.sort(np.asarray(sb.get(c, np.zeros(0))))[::-1] / nb
            a = np.sort(np.asarray(sa.get(c, np.zeros(0))))[::-1] / na
            k = int(np.count_nonzero(a > thr))
            if k > len(b):
                ctx.violation("cut:values-created", f"{what}: cut {cut}, sector {c}: {k} values after, {len(b)} before", self.witness())
                raise Stop
            kept.append(b[:k])
            disc.append(b[k:])
            got.append(a[:k])
        kept = np.concatenate(kept) if kept else np.zeros(0)
        disc = np.concatenate(disc) if disc else np.zeros(0)
        got = np.concatenate(got) if got else np.zeros(0)
        nk = R.nrm(kept)
        if nk == 0:
            ctx.violation("cut:state-vanished", f"{what}: cut {cut}: nothing kept", self.witness())
            raise Stop
        # (1) the kept values are, in every charge sector, the largest ones of that sector (multiset; ties free)
        err = R.maxabs(got - kept / nk)
        if not ctx.margin("cut:kept-are-top", err, 1e-12):
            ctx.violation("truncation-keeps-smaller-value:within-sector",
                          f"{what}: cut {cut}: spectrum after {np.sort(got)[::-1][:6]} is not the top of the spectrum before "
                          f"{np.sort(kept / nk)[::-1][:6]} (max diff {err:.3e})", self.witness())
            raise Stop
        # (2) global options: nothing discarded is larger than something kept
        binding = bool(np.any(disc > thr))
        if binding:
            ctx.count("cut_multiset_binding")
        if global_only and binding and len(kept) and float(np.max(disc)) > float(np.min(kept)) + 1e-12:
            ctx.violation("truncation-keeps-smaller-value:across-sectors",
                          f"{what}: cut {cut}: discarded value {float(np.max(disc))!r} exceeds kept value {float(np.min(kept))!r}", self.witness())
            raise Stop
        # (3) the returned local weight
        exp_dl = R.nrm(disc)
        if not ctx.margin("cut:local-weight", abs(dl - exp_dl), 1e-12):
            ctx.violation("discarded-weight:local", f"{what}: cut {cut}: diagonalize_central_ returned {dl!r}, the dense spectrum gives {exp_dl!r}",
                          self.witness())
            raise Stop
        d_true = rejection(before, after)
        ctx.count("local_weights_compared_relatively")
        if 1e-12 < d_true < 1e-6:
            ctx.count("small_weight_local_truncations")
        if not ctx.margin("cut:local-weight-relative", abs(dl - d_true), REL_W * d_true + ABS_W):
            ctx.violation("discarded-weight:relative-accuracy:local",
                          f"{what}: cut {cut}: diagonalize_central_ returned {dl!r}, true relative weight of the discarded part {d_true!r} "
                          f"(relative deviation {abs(dl - d_true) / max(d_true, 1e-300):.2e})", self.witness())
            raise Stop
        # (4) norm bookkeeping of the local step
        if not nz and not ctx.margin("cut:norm-kept", abs(na - nb * nk), 1e-12 * nb):
            ctx.violation("factor:diagonalize_central_", f"{what}: cut {cut}: norm after the local truncation {na!r}, kept weight says {nb * nk!r}",
                          self.witness())
            raise Stop
        if nz and not ctx.margin("cut:unit-norm", abs(na - 1), 1e-12):
            ctx.violation("norm-not-one:diagonalize_central_", f"{what}: cut {cut}: normalize=True in mixed canonical form but norm {na!r}", self.witness())
            raise Stop

    # ---- driver -------------------------------------------------------------------
    def run_zero(self):
        """Vanishing states: what is defined is judged (the state stays zero, norm() is 0, nothing raises with normalize=False);
        normalisation of a zero vector, its Schmidt values and entropies are not defined: those calls are only counted."""
        import yastn.tn.mps as mps
        rng, ctx = self.rng, self.ctx
        self.start()
        psi, scale = self.psi, max(self.cond_scale(), R.nrm(self.v))
        mode = rng.choice(("factor-zero", "zero-site", "psi-minus-psi", "zero-amplitudes"))
        if psi.pC is not None:
            psi.absorb_central_()
        if mode == "factor-zero":
            z = rng.choice((0, 0.0, 0j, -0.0)) * psi
        elif mode == "zero-site":
            z = psi.shallow_copy()
            n = rng.randrange(self.N)
            z[n] = 0.0 * z[n]
        elif mode == "psi-minus-psi":
            z, scale = psi - psi, 2 * scale
        else:
            z = mps.add(psi, psi, amplitudes=[0, rng.choice((0.0, -0.0, 0j))])
        self.how, self.psi = "zero:" + mode, z
        ctx.count("start:zero-state")
        ctx.count("zero-state:" + mode)
        tol = CT * R.EPS * scale

        def is_zero(what):
            obs = self.obs(what)
            ctx.count("state_comparisons")
            if not ctx.margin("zero-state", R.maxabs(obs), tol):
                ctx.violation("zero-state-became-nonzero:" + what.split("(")[0], f"{mode}: after {what} the dense state has max |element| "
                              f"{R.maxabs(obs):.3e} (scale {scale:.3e})", self.witness())
                raise Stop

        is_zero("construction")
        nrm = z.norm()
        self.steps.append(["norm"])
        if not ctx.margin("zero-state:norm", abs(nrm), tol * np.sqrt(max(1, self.v.size))):
            ctx.violation("norm-value:zero-state", f"{mode}: norm() = {nrm!r}", self.witness())
        for _ in range(rng.randint(2, 4)):
            to = rng.choice(("first", "last"))
            kind = rng.choice(("canonize_", "truncate_", "site"))
            self.steps.append([kind, to, False])
            if kind == "canonize_":
                z.canonize_(to=to, normalize=False)
            elif kind == "truncate_":
                z.truncate_(to=to, opts_svd=dict(rng.choice(NONBINDING)), normalize=False)
            else:
                z.orthogonalize_site_(rng.randrange(self.N), to=to, normalize=False)
                z.absorb_central_(to=rng.choice(("first", "last")))
            ctx.count("zero-state:step:" + kind)
            self.count_step("zero-state", False)
            is_zero(f"{kind}(to={to}, normalize=False)")
            if mode == "factor-zero" and z.factor != 0:
                ctx.violation("factor:zero-state", f"factor 0 became {z.factor!r} after {kind}", self.witness())
        # undefined territory: only counted
        for name, f in (("canonize_(normalize=True)", lambda: z.shallow_copy().canonize_(to="first")),
                        ("truncate_(normalize=True)", lambda: z.shallow_copy().truncate_(opts_svd={"D_total": 4})),
                        ("get_Schmidt_values", lambda: z.get_Schmidt_values()), ("get_entropy", lambda: z.get_entropy())):
            try:
                f()
                ctx.count("zero-state:undefined:" + name + ":returns")
            except Exception as e:          # not judged: normalising a zero vector is not defined
                ctx.count("zero-state:undefined:" + name + ":raises-" + type(e).__name__)

    def check_twin(self):
        """A copy taken earlier must still represent the state it had then; sweeping on it must not move self.psi."""
        ctx, rng = self.ctx, self.rng
        how, twin, v_twin = self.twin
        now, bad = R.obs_sites(twin, self.loc)
        ctx.count("twin_checks")
        if bad or now.shape != v_twin.shape or not np.array_equal(now, v_twin):
            ctx.violation("twin-changed:" + how, f"the {how}() taken before {self.twin_at} changed its represented state while the original "
                          f"was swept in place (max diff {R.maxabs(now - v_twin) if not bad else bad})", self.witness())
            raise Stop
        if R.nrm(v_twin) > 0:
            twin.canonize_(to=rng.choice(("first", "last")), normalize=False)
            if rng.random() < 0.5:
                twin.truncate_(to=rng.choice(("first", "last")), opts_svd={"D_total": 1}, normalize=True)
            mine = self.obs("after sweeping the twin")
            if not ctx.margin("twin:original", R.maxabs(mine - self.v), CT * R.EPS * max(R.nrm(self.v), self.cond_scale(), self.cond_rel * R.nrm(self.v))):
                ctx.violation("twin-changed:original-after-sweep-on-" + how, f"canonize_/truncate_ on the {how}() moved the original by "
                              f"{R.maxabs(mine - self.v):.3e}", self.witness())
                raise Stop

    def run(self):
        rng = self.rng
        if rng.random() < 0.05:
            return self.run_zero()
        self.start()
        nsteps = rng.randint(3, 8)
        self.twin = None
        twin_step = rng.randrange(nsteps) if rng.random() < 0.35 else -1
        for istep in range(nsteps):
            if istep == twin_step:
                how = rng.choice(("shallow_copy", "copy", "clone"))
                twin = getattr(self.psi, how)()
                v_twin, bad = R.obs_sites(twin, self.loc)
                if not bad:
                    self.twin, self.twin_at = (how, twin, v_twin), f"step {istep}"
                    self.steps.append(["twin", how])
            if self.psi.pC is not None:
                self.step_absorb() if rng.random() < 0.6 else self.step_canonize()
                continue
            r = rng.random()
            if r < 0.22:
                self.step_canonize()
            elif r < 0.47:
                self.step_site()
            elif r < 0.57:
                self.step_truncate_nonbinding()
            elif r < 0.69:
                self.step_observers()
            elif r < 0.73:
                self.step_must_reject()
            else:
                self.step_binding()
        if self.twin is not None:
            self.check_twin()
        if self.psi.pC is None:
            a = R.obs_tensor(self.psi, self.loc)
            self.ctx.count("final_to_tensor_crosschecks")
            if not self.ctx.margin("obs:to_tensor-vs-sites", R.maxabs(a - self.v),
                                   CT * R.EPS * max(R.nrm(self.v), self.cond_scale(), 1e-300)):
                self.ctx.violation("observation:to_tensor-vs-site-contraction", "end of program: to_tensor differs from the site contraction",
                                   self.witness())


def run_case(ctx, idx):
    P = Prog(ctx, idx)
    try:
        P.run()
    except Stop:
        ctx.count("cases_stopped_at_first_violation")
    prog = tuple(tuple(repr(x) for x in s) for s in P.steps)
    sig = (P.loc.tag(), P.kind, P.N, getattr(P, "how", None), repr(getattr(P, "desc", None))[:600], repr(getattr(P, "scales", None)), prog)
    ctx.case(sig, nontrivial=len(P.steps) > 0 and P.v is not None,
             sample={"space": P.loc.tag(), "kind": P.kind, "N": P.N, "start": getattr(P, "how", None),
                     "prefactor": getattr(P, "pre", None), "site_scales": getattr(P, "scales", None), "program": P.steps})


# ------------------------------------------------------------------ canaries

def canaries(ctx):
    sub = type(ctx)(ctx.prop, ctx.tier, 0)
    sub.idx = 0
    P = Prog(sub, 2)                 # Spin12/U1
    P.kind, P.nrp, P.N = "mps", 1, 4
    P.start()
    P.psi.canonize_(to="first", normalize=False)
    P.v = P.obs("canary")

    def fired(prefix):
        hit = any(v["key"].startswith(prefix) for v in sub.violations)
        sub.violations.clear()
        return hit

    # 1. state moved by 1e-7 relative
    v = P.v.copy()
    k = int(np.flatnonzero(v)[0])
    w = v.copy()
    w[k] *= 1 + 1e-7
    keep = P.v
    try:
        P.same_state("canary", "canary", w, keep_norm=True)
    except Stop:
        pass
    P.v = keep
    ctx.canary("state-moved", fired("state-changed:canary"))
    # 2. a sign flip is not a positive multiple
    try:
        P.same_state("canary", "canary", -keep, keep_norm=False)
    except Stop:
        pass
    P.v = keep
    ctx.canary("direction-flipped", fired("direction-changed:canary"))
    # 3. a non-isometric site
    P.psi.A[1] = P.psi.A[1] * (1 + 1e-9)
    try:
        P.isometry("canary", "canary", range(P.N), "first")      # the state was canonized to 'first'
    except Stop:
        pass
    ctx.canary("not-isometric", fired("not-isometric:canary"))
    # 4. cut check: keep the smaller of two Schmidt values
    Q = Prog(sub, 2)
    Q.kind, Q.nrp, Q.N, Q.how, Q.pre, Q.q, Q.desc = "mps", 1, 2, "canary", None, (0,), None
    before = np.zeros(4)
    before[1], before[2] = 0.8, 0.6            # |du> and |ud>: two sectors, values 0.8 and 0.6
    after_bad = np.zeros(4)
    after_bad[2] = 0.6
    try:
        Q.cut_check("canary", 1, before, after_bad, 0.8, False, True)
    except Stop:
        pass
    ctx.canary("kept-smaller-value", fired("truncation-keeps-smaller-value"))
    after_ok = np.zeros(4)
    after_ok[1] = 0.8
    try:
        Q.cut_check("canary", 1, before, after_ok, 0.7, False, True)      # true local weight is 0.6
    except Stop:
        pass
    ctx.canary("wrong-local-weight", fired("discarded-weight:local"))
    try:
        Q.cut_check("canary", 1, before, after_ok, 0.6, False, True)
    except Stop:
        pass
    ctx.canary("cut-check-accepts-correct", not sub.violations)
    sub.violations.clear()


def finalize(cov, merged):
    c = merged["counters"]
    cov["spaces_exercised"] = sorted(k[6:] for k in c if k.startswith("space:"))
    if len(cov["spaces_exercised"]) < len(R.SPACES):
        cov["inconclusive_reasons"].append(f"only {len(cov['spaces_exercised'])} of {len(R.SPACES)} local spaces exercised")
    tot = c.get("steps_normalize_False", 0) + c.get("steps_normalize_True", 0)
    share = c.get("steps_normalize_False", 0) / max(1, tot)
    cov["normalize_False_share"] = round(share, 3)
    if share < 0.3:
        cov["inconclusive_reasons"].append(f"normalize=False in only {share:.0%} of the steps that take the flag (< 30 %)")
