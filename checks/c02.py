"""C02  Every produced tensor is well-formed and conserves charge.

Invariant monitor at the API boundary: every public yastn callable is interposed (in every namespace where
it is bound); every Tensor found in the return value of every call - at any call depth, i.e. also the
tensors created *inside* algorithms - is checked against the independent invariant set I1-I10 of
vmon/wellformed.py and against the per-operation charge post-condition table.
Workloads: (i) random operation programs over all symmetries / fermionic flags / policies / fusion modes,
(ii) the case generators of the other properties (muted: only this monitor judges), (iii) thorough tier:
every test file of the repository's own suite, run unmodified under the monitor.
"""
from __future__ import annotations

from vmon import workloads as W
from vmon.bundle import Bundle

PROP = "C02"
RULE = ("case = one random operation program (8-30 steps over tensordot/ncon/fuse/unfuse/svd/qr/trace/add/transpose/"
        "add_leg/swap_gate/mask/to_dict/...; symmetry, fermionic flag, tensordot policy and fusion mode drawn per program), or "
        "one case of another property's generator, or (thorough) one repository test file; distinct = hash of the full program "
        "(symmetry, initial block structures, step list); non-trivial = the monitor checked at least one returned tensor in it")
ASSUMPTIONS = ["invariants I1-I9 are re-derived independently (vmon/wellformed.py, vmon/groups.py); I10 calls the library's is_consistent()",
               "tensors are observed where they cross an interposed public function boundary; purely internal temporaries are not seen"]
MONITORS = ("wellformed",)

_B = {"bundle": None, "ctx": None}


def _report(key, what, witness=None):
    _B["ctx"].violation(key, what, witness)


def ensure(ctx):
    _B["ctx"] = ctx
    if _B["bundle"] is None:
        _B["bundle"] = Bundle(_report, wellformed=True).install()
    return _B["bundle"]


def layout(tier):
    seg = []
    if tier == "thorough":
        seg.append(("suite", len(W.test_files())))
        seg.append(("prog", 8000))
        per = 300
    else:
        seg.append(("prog", 480))
        per = 40
    for name in W.foreign_modules():
        if tier != "thorough" and name not in W.TENSOR_LEVEL:
            continue      # MPS/PEPS generators are driven in the thorough tier only (seconds per case under the monitors)
        seg.append(("foreign:" + name, per if name in ("c01", "c03", "c04", "c05", "c13", "c14", "c17") else max(4, per // 10)))
    return seg


def locate(tier, idx):
    for kind, n in layout(tier):
        if idx < n:
            return kind, idx
        idx -= n
    raise IndexError


def plan(tier):
    n = sum(k for _, k in layout(tier))
    if tier == "thorough":
        return {"cases": n, "shards": 16, "budget_s": 3300, "hard_timeout_s": 5400}
    return {"cases": n, "shards": 8, "budget_s": 300}


def floors(tier):
    if tier == "thorough":
        return {"tensors_checked": 100000, "charge_postconditions": 20000, "nonzero_charge_tensors": 10000, "suite_files_run": 80}
    return {"tensors_checked": 5000, "charge_postconditions": 1500, "nonzero_charge_tensors": 800}


def run_case(ctx, idx):
    b = ensure(ctx)
    before = b.wf.tensors
    kind, k = locate(ctx.tier, idx)
    if kind == "prog":
        prog, pool, cfg = W.program_case(ctx, k)
        ctx.case(prog.sig(), b.wf.tensors > before, {"kind": "program", **prog.desc()} if k < 3 else None)
    elif kind.startswith("foreign:"):
        W.foreign_case(ctx, kind.split(":")[1], k)
        ctx.case(("foreign", kind, k), b.wf.tensors > before)
    else:
        f = W.test_files()[k]
        t0 = ctx.counters.get("tensors_checked", 0)
        W.suite_case(ctx, f, MONITORS)
        ctx.case(("suite", f), ctx.counters.get("tensors_checked", 0) > t0, {"kind": "suite-file", "file": f})


def end_shard(ctx):
    b = _B["bundle"]
    if b is not None:
        b.flush(ctx)


def canaries(ctx):
    """Corrupted tensors must trip the invariant set; a wrong charge must trip the post-condition."""
    import numpy as np
    import yastn
    from vmon import wellformed as WF
    from vmon.interpose import Event
    cfg = yastn.make_config(sym="U1")
    l = yastn.Leg(cfg, s=1, t=(-1, 0, 1), D=(1, 2, 1))
    a = yastn.rand(cfg, legs=[l, l, l.conj()], n=1)
    ok = WF.check_tensor(a)
    ctx.canary("clean-tensor-silent", ok == [])
    # wrong charge label on one block
    t = list(a.struct.t)
    t[0] = (t[0][0] + 1,) + t[0][1:]
    b = a._replace(struct=a.struct._replace(t=tuple(sorted(t))))
    ctx.canary("selection-rule", any(k.startswith("I3") for k, _ in WF.check_tensor(b, run_is_consistent=False)))
    # unsorted blocks
    b = a._replace(struct=a.struct._replace(t=a.struct.t[::-1], D=a.struct.D[::-1]), slices=a.slices[::-1])
    ctx.canary("order", any(k.startswith("I2") for k, _ in WF.check_tensor(b, run_is_consistent=False)))
    # stale slices / wrong size
    b = a._replace(struct=a.struct._replace(size=a.struct.size + 1))
    ctx.canary("size", any(k.startswith("I5") for k, _ in WF.check_tensor(b, run_is_consistent=False)))
    # inconsistent fusion history
    f = a.fuse_legs(axes=((0, 1), 2), mode="hard")
    hf = f.hfs[0]
    bad = hf._replace(D=(tuple(x + 1 for x in hf.D[0]),) + hf.D[1:])
    b = f._replace(hfs=(bad,) + f.hfs[1:])
    ctx.canary("fusion-history", any(k.startswith("I6") for k, _ in WF.check_tensor(b, run_is_consistent=False)))
    # charge post-condition
    fired = []
    m = WF.WellformedMonitor(lambda k, w, x=None: fired.append(k))
    wrong = a._replace(struct=a.struct._replace(n=(0,)))
    m.after(Event("yastn.tensor._single.conj", None, (a,), {}, 0, None, "function"), None, wrong, None)
    ctx.canary("charge-postcondition", any(k.startswith("charge-postcondition") for k in fired))


def finalize(cov, merged):
    by_op = cov.get("tensors_by_op", {})
    cov["op_kinds_producing_tensors"] = len(by_op)
    if len(by_op) < 30:
        cov["inconclusive_reasons"].append(f"only {len(by_op)} operation kinds produced tensors")
    c = merged["counters"]
    if c.get("monitor_errors", 0):
        cov["inconclusive_reasons"].append("monitor raised internally %d times" % c["monitor_errors"])
