"""C13  Truncation keeps exactly the largest weights and reports the true error.

Three workloads, one oracle (the set-theoretic specification evaluated on the kept values):

(A) mask grid: diagonal S tensors built directly by the harness (1-5 charge sectors, degenerate values, exact zeros,
    single-element sectors, all-equal values, shuffled order) x parameter sets drawn from the grid
    D_total x D_block (int / inf / per-sector dict) x tol x tol_block (float / per-sector dict), including 0, 1, inf, exact
    ratios value/max (a value exactly at the threshold) and ratios just above / below;
(B) truncate_multiplets=True and truncation_mask_multiplets (cut moved to a gap / multiplet boundary);
(C) svd_with_truncation / eigh_with_truncation on harness tensors (dense truth known) with operands as in C04 (lazy,
    fused, every bipartition, sU/nU/axis arguments), generic and designed spectra (degeneracies, zeros), per-sector
    dictionaries keyed by the charges the harness derives from charge conservation, mask_f.

Specification (DESIGN.md C13).  Per block b: k_b = min(D_block_b, #{v > tol_block_b * max_b}); the survivors are a top-k_b
set of the block.  Globally: K = min(D_total, #{v in survivors : v > tol * max(survivors)}); the kept multiset of values is
the top-K multiset of the survivors and the values kept in block b are a sub-multiset of the top-k_b values of b.  This is
exactly the set of outcomes reachable by resolving ties arbitrarily.  A value *exactly* at a threshold (|v - thr| <= 8 eps
|thr|; for thr = 0 an exact zero) may be counted or not (the docstrings say "larger than" in one place and "below which to
truncate" in another); consequently exact zeros may always be dropped.  The only extra demand at an exact threshold is
that, for a single-sector spectrum, ``tol=x`` and ``tol_block=x`` take the same decision (identical wording in the docs).
Decompositions: ||a - U S V||_F (dense truth) equals the norm of the discarded values of the full spectrum.

Domain (what is *not* judged, only exercised and counted): per-sector dictionaries that do not cover every sector
(undocumented default; eigh_with_truncation documents plain numbers only, so it gets no dictionaries at all); relative tolerances other than 0 / -inf when the values they are relative to are not all >= 0 with
the maximum attained by a positive value; eigh_with_truncation is judged on the transformed spectrum the function builds
(|S| for LM/SM, S for LR, negated for SM/SR).  tol = tol_block = -inf ("tolerance switched off") on negative transformed
spectra (which='SR'/'SM', the calling pattern of the repository's own tests) IS judged: the docstring promises that the
number kept is the smallest of what the three criteria allow.
"""
from __future__ import annotations

import collections
import random

import numpy as np

from vmon import dense as D
from vmon import factorgen as F
from vmon import groups as G

PROP = "C13"
RULE = ("case = (A) one diagonal S (symmetry, 1-5 sectors of dim 1-6, value pattern dyadic/zeros/all-equal/random/duplicates/signed, "
        "sorted or shuffled) x 8 parameter sets from the grid D_total x D_block x tol x tol_block (ints, inf, per-sector dicts, 0, 1, "
        "exact ratios, ratios*(1+-1e-3)); (B) one S x 6 parameter sets of truncate_multiplets / truncation_mask_multiplets; (C) one "
        "harness tensor (as in C04: lazy/fused operand, ordered bipartition, sU/nU/axes) x one truncation parameter set for "
        "svd_with_truncation or eigh_with_truncation; distinct = hash of (workload, structure of S or of the operand, parameter "
        "structure); non-trivial = S holds at least two values and the kept set was compared with the specification")
ASSUMPTIONS = ["the specification of DESIGN.md C13 is the reading of the docstrings; a value exactly at a tolerance threshold may be kept or dropped",
               "full spectra for (C) are taken from yastn.svd / yastn.eigh with the same arguments (verified against NumPy in the same case, and by C04)",
               "kept values are matched to the full spectrum within 1e-13 relative (values are copies)",
               "NumPy dense linear algebra on matrices of dimension <= 729"]

INF = float("inf")
EPS8 = 8 * 2.3e-16


def plan(tier):
    if tier == "thorough":
        return {"cases": 92400, "shards": 16, "budget_s": 800}
    return {"cases": 5280, "shards": 8, "budget_s": 100}


def floors(tier):
    k = 15 if tier == "thorough" else 1
    return {"evaluations": 3000 * k, "masks_judged": 12000 * k, "multiplet_masks_judged": 1500 * k,
            "decompositions_judged": 400 * k, "svd_with_truncation": 200 * k, "eigh_with_truncation": 150 * k,
            "error_identity_checked": 400 * k, "threshold_exactly_hit": 300 * k, "ties_at_cut": 300 * k,
            "param:D_block-dict": 500 * k, "param:tol_block-dict": 300 * k, "param:D_total-binds": 1000 * k,
            "param:D_block-binds": 1000 * k, "param:tol-binds": 1000 * k, "param:tol_block-binds": 1000 * k,
            "nothing_binds": 300 * k, "spectra_with_zeros": 300 * k, "spectra_all_equal": 50 * k, "single_element_sectors": 500 * k,
            "stage_consistency_checked": 100 * k, "multiplets_hermitian_judged": 40 * k, "decomp_fused": 80 * k, "decomp_lazy": 150 * k, "decomp_dict_by_charge": 40 * k,
            "decomp_designed_spectrum": 100 * k, "mask_f_used": 10 * k,
            "decomp_dict_asymmetric": 30 * k, "lowrank_judged": 200 * k,
            "empty_dict:D_block:lowrank": 15 * k, "empty_dict:D_block:fullrank": 15 * k, "empty_dict:tol_block:lowrank": 6 * k,
            "empty_dict:k_block:lowrank": 6 * k, "empty_dict_policies_compared": 25 * k, "empty_dict:truncation_mask": 20 * k,
            "scale_invariance_checked": 1500 * k, "scaled_operands": 80 * k, "mask_no_limits": 300 * k,
            "pure_defaults:svd_with_truncation": 20 * k, "pure_defaults:eigh_with_truncation": 10 * k,
            "value:D_total=0": 300 * k, "value:D_block=0": 300 * k, "value:tol=0": 300 * k, "value:tol_block=0": 300 * k,
            "value:tol>=1": 300 * k, "value:tol_block>=1": 300 * k, "spectra_denormal": 100 * k, "spectra_negative_zero": 50 * k,
            **{f"{name}:{op}{suffix}": n * k for op in ("svd_with_truncation", "eigh_with_truncation")
               for name, suffix, n in (("lazy_3cycle", "", 15), ("lazy_3cycle_identical_legs", "", 1), ("negaxis_full_range", "", 15),
                                       ("negaxis_fused_factor", "", 10), ("negaxis", ":-1", 15), ("negaxis", ":-2", 15))}, "lowrank_arpack_cases": 40 * k, "lowrank_dict_asymmetric": 80 * k,
            "lowrank_dict_asymmetric_negated_combo": 30 * k, "lowrank:k_dict": 20 * k, "lowrank:int": 30 * k}


# ------------------------------------------------------------------ specification

def cat(arrs):
    arrs = [np.asarray(a, dtype=float).ravel() for a in arrs]
    return np.concatenate(arrs) if arrs else np.zeros(0)


def _thr(tol, mx):
    with np.errstate(all="ignore"):
        return float(np.float64(tol) * np.float64(mx))


def classify(vals, thr, rel=EPS8):
    """(#values certainly above thr, #values exactly at thr, are those all bit-identical).  vals: 1d array."""
    vals = np.asarray(vals, dtype=float)
    if thr != thr:                       # inf * 0: the values are all zero, weightless: any decision
        return 0, len(vals), False
    if thr == -INF:
        return len(vals), 0, True
    if thr == INF:
        return 0, 0, True
    slack = rel * abs(thr)
    eq = np.abs(vals - thr) <= slack
    strict = (vals > thr) & ~eq
    # representatives of clustered (recomputed) spectra stand for values that differ in the last bits: any split is possible
    return int(strict.sum()), int(eq.sum()), bool(len(set(vals[eq].tolist())) <= 1 and rel <= EPS8)


def options(n_strict, n_eq, same):
    if n_eq == 0:
        return [n_strict]
    return [n_strict, n_strict + n_eq] if same else list(range(n_strict, n_strict + n_eq + 1))


def capped(D, n):
    return n if D == INF else int(min(D, n))


class Spec:
    """blocks: {t: 1d values};  limits as passed to the library (dicts must cover every sector)."""

    def __init__(self, blocks, D_block=INF, tol_block=0, D_total=INF, tol=0, rel=EPS8):
        self.rel = rel
        self.blocks = {t: np.sort(np.asarray(v, dtype=float))[::-1] for t, v in blocks.items()}
        self.Db = {t: (D_block[t] if isinstance(D_block, dict) else D_block) for t in blocks}
        self.tb = {t: (tol_block[t] if isinstance(tol_block, dict) else tol_block) for t in blocks}
        self.D_total, self.tol = D_total, tol
        self.thr_b, self.kopts = {}, {}
        self.exact_hits = 0
        for t, v in self.blocks.items():
            mx = float(np.max(np.abs(v))) if len(v) else 0.0
            self.thr_b[t] = _thr(self.tb[t], mx)
            ns, ne, same = classify(v, self.thr_b[t], rel)
            if ne and self.thr_b[t] == self.thr_b[t] and (self.thr_b[t] != 0):
                self.exact_hits += 1
            self.kopts[t] = sorted({capped(self.Db[t], n) for n in options(ns, ne, same)})

    def readings(self, limit=512):
        """All (k_b per block, pool, K) combinations allowed by threshold ambiguity; the first one is the strict reading."""
        ts = sorted(self.blocks)
        combos = [[]]
        for t in ts:
            combos = [c + [k] for c in combos for k in self.kopts[t]]
            if len(combos) > limit:
                combos = combos[:limit]
        for c in combos:
            kb = dict(zip(ts, c))
            pool = np.sort(cat(self.blocks[t][:kb[t]] for t in ts))[::-1]
            mx = float(np.max(np.abs(pool))) if len(pool) else 0.0
            thr = _thr(self.tol, mx)
            ns, ne, same = classify(pool, thr, self.rel)
            for n in options(ns, ne, same):
                yield kb, pool, capped(self.D_total, n), thr, (ne > 0 and thr == thr and thr != 0)

    def verify(self, kept):
        """kept: {t: 1d array of kept values}.  None when some reading explains the outcome, else (event, text).

        Exact zeros carry no weight: the kept non-zero values must be exactly the non-zero values of the top-K survivors;
        zeros may be kept only as far as the top-K survivors contain zeros."""
        kc = {t: collections.Counter(np.asarray(kept.get(t, []), dtype=float).tolist()) for t in self.blocks}
        allk = collections.Counter()
        for c in kc.values():
            allk.update(c)
        nz = collections.Counter({v: n for v, n in allk.items() if v != 0})
        nzero = allk.get(0.0, 0)
        first = None
        for kb, pool, K, thr, hit in self.readings():
            if first is None:
                first = (kb, pool, K, thr)
            if any(any(n > collections.Counter(self.blocks[t][:kb[t]].tolist())[v] for v, n in kc[t].items()) for t in kc):
                continue
            top = pool[:K]
            if nz == collections.Counter(top[top != 0].tolist()) and nzero <= int(np.sum(top == 0)):
                return None
        return self.diagnose(kc, allk, *first)

    def diagnose(self, kc, allk, kb, pool, K, thr):
        nk = sum(allk.values())
        neg = bool(len(pool) and np.min(pool) < 0)
        if neg:
            return ("global-stage-negative-values",
                    f"block-stage survivors contain negative values {pool.tolist()[:8]}; expected the {K} largest to be kept, "
                    f"got {sorted(allk.elements(), reverse=True)[:8]}")
        for t, c in kc.items():
            n = sum(c.values())
            if self.Db[t] != INF and n > self.Db[t]:
                return "D_block-exceeded", f"sector {t}: {n} values kept, D_block = {self.Db[t]}"
            th = self.thr_b[t]
            if th == th and any(v < th - self.rel * abs(th) for v in c):
                return "tol_block-not-respected", f"sector {t}: kept {sorted(c.elements())[:4]} below tol_block*max = {th}"
            top = collections.Counter(self.blocks[t][:kb[t]].tolist())
            if any(m > top[v] for v, m in c.items()):
                if n > kb[t]:
                    return "block-kept-more-than-allowed", f"sector {t}: {n} kept, the block limits allow {kb[t]}"
                return "block-not-largest", f"sector {t}: kept {sorted(c.elements(), reverse=True)[:6]} is not among its {kb[t]} largest {self.blocks[t][:kb[t]].tolist()[:6]}"
        if self.D_total != INF and nk > self.D_total:
            return "D_total-exceeded", f"{nk} values kept, D_total = {self.D_total}"
        if thr == thr and any(v < thr - self.rel * abs(thr) for v in allk):
            return "tol-not-respected", f"kept value below tol*max = {thr}"
        topnz = int(np.sum(pool[:K] != 0))
        nknz = sum(n for v, n in allk.items() if v != 0)
        if nknz < topnz:
            return "kept-fewer-than-allowed", (f"{nknz} non-zero values kept where the limits allow {topnz}: kept {sorted(allk.elements(), reverse=True)[:8]}, "
                                               f"survivors of the block stage {pool.tolist()[:10]}")
        if nk > K:
            return "kept-more-than-allowed", f"{nk} values kept where the limits allow {K}"
        return "not-largest-kept", (f"kept {sorted(allk.elements(), reverse=True)[:8]} but the {K} largest survivors are {pool[:K].tolist()[:8]}")

    def binds(self):
        """Which limits bind under the strict reading (coverage counters)."""
        kb, pool, K, thr, _ = next(self.readings())
        out = set()
        for t, v in self.blocks.items():
            ns, _, _ = classify(v, self.thr_b[t], self.rel)
            if ns < len(v[v != 0]):
                out.add("tol_block")
            if self.Db[t] != INF and self.Db[t] < ns:
                out.add("D_block")
        ns, _, _ = classify(pool, thr, self.rel)
        if ns < len(pool[pool != 0]):
            out.add("tol")
        if self.D_total != INF and self.D_total < ns:
            out.add("D_total")
        # ties exactly at the cut: the K-th and (K+1)-th survivor are equal
        tie = 0 < K < len(pool) and pool[K - 1] == pool[K]
        for t, v in self.blocks.items():
            if 0 < kb[t] < len(v) and v[kb[t] - 1] == v[kb[t]]:
                tie = True
        return out, tie


def thresholds_unambiguous(blocks, tol_block, tol):
    """The relative tolerances refer to 'the largest value': unambiguous for tol in (0, -inf) or when max == max|.| > 0 or all zero."""
    def ok(tolv, vals):
        if tolv == 0 or tolv == -INF or len(vals) == 0:
            return True
        return float(np.max(vals)) == float(np.max(np.abs(vals)))
    for t, v in blocks.items():
        tb = tol_block[t] if isinstance(tol_block, dict) else tol_block
        if not ok(tb, v):
            return False
        if tb == -INF and tol not in (0, -INF) and len(v) and np.min(v) < 0:
            return False
    allv = cat(blocks.values())
    # after a block stage with tol_block >= 0 only positive values survive, so a global tol > 0 is relative to a positive maximum
    return True if (tol == 0 or tol == -INF or len(allv) == 0) else bool(np.max(allv) > 0 or np.all(allv == 0))


# ------------------------------------------------------------------ spectra (A, B)

def gen_spectrum(rng, nprng, sym, signed=False):
    nsec = rng.choice((1, 1, 2, 2, 3, 3, 4, 5))
    leg = D.gen_leg(rng, sym, nsec=(nsec, nsec), dmax=6)
    pat = rng.choice(("dyadic", "dyadic", "dyadic+zeros", "all-equal", "random", "random+dups", "random+zeros", "wide", "zeros-only", "halves",
                      "denormal", "denormal+zeros", "huge", "tiny+zeros"))
    secs = []
    for t, Dt in leg.sectors:
        if rng.random() < 0.25:
            Dt = 1
        secs.append((t, Dt))
    leg = D.HLeg(sym, leg.s, secs)
    total = sum(Dt for _, Dt in secs)
    if pat.startswith("dyadic"):
        pool = [2.0 ** -k for k in range(0, 7)]
        vals = [rng.choice(pool) for _ in range(total)]
    elif pat == "halves":
        vals = [rng.choice((1.0, 0.5, 0.25)) for _ in range(total)]
    elif pat == "all-equal":
        c = rng.choice((1.0, 0.3, 2.5, 1e-8))
        vals = [c] * total
    elif pat == "wide":
        vals = [10.0 ** (-16 * rng.random()) for _ in range(total)]
    elif pat == "zeros-only":
        vals = [0.0] * total
    elif pat.startswith("denormal"):
        vals = [rng.choice((5e-324, 1e-323, 1.5e-323, 1e-310, 2e-310, 2.2250738585072014e-308, 4.450147717014403e-308)) for _ in range(total)]
    elif pat == "huge":
        vals = [1e300 * 2.0 ** -rng.randint(0, 6) for _ in range(total)]
    elif pat.startswith("tiny"):
        vals = [1e-200 * 2.0 ** -rng.randint(0, 6) for _ in range(total)]
    else:
        vals = [float(x) for x in nprng.random(total)]
        if pat == "random+dups":
            for _ in range(max(1, total // 2)):
                vals[rng.randrange(total)] = vals[rng.randrange(total)]
    if pat.endswith("zeros"):
        for i in range(total):
            if rng.random() < 0.3:
                vals[i] = rng.choice((0.0, 0.0, -0.0))
    if signed:
        vals = [v * rng.choice((1, -1, -1)) for v in vals]
    blocks, lo = {}, 0
    shuffled = rng.random() < 0.3
    for t, Dt in secs:
        v = sorted(vals[lo:lo + Dt], reverse=True)
        if shuffled:
            rng.shuffle(v)
        blocks[t] = np.array(v, dtype=float)
        lo += Dt
    return leg, blocks, pat, shuffled


def build_S(sym, leg, blocks, cfg):
    ht = D.HTensor(sym, (leg, leg.conj()), G.zero(sym), {(t, t): v for t, v in blocks.items()}, "float64", isdiag=True)
    return ht.to_yastn(cfg)


def ratio_pool(rng, vals):
    """Tolerances that put some value exactly at / just above / just below the threshold tol * max."""
    vals = np.asarray(vals, dtype=float)
    out = []
    mx = float(np.max(np.abs(vals))) if len(vals) else 0.0
    if mx > 0:
        for _ in range(3):
            v = float(abs(vals[rng.randrange(len(vals))]))
            r = v / mx
            out += [r, r, r * (1 + 1e-3), r * (1 - 1e-3)]
    return out


def gen_limits(rng, blocks, signed=False, cover=True, empty_ok=False):
    """One parameter set of the grid; returns (kwargs for the library, descriptor)."""
    ts = sorted(blocks)
    allv = cat(blocks[t] for t in ts)
    ntot = len(allv)
    npos = int(np.sum(allv > 0))
    maxD = max((len(blocks[t]) for t in ts), default=0)
    kw, desc = {}, {}
    if rng.random() < 0.04:
        return {}, {}                      # truncation_mask(S): every limit omitted
    shuf = lambda seq: rng.sample(list(seq), len(seq))      # user-controlled container order: dictionaries in any insertion order
    if rng.random() < 0.6:
        kw["D_total"] = rng.choice((INF, 0, 1, 2, 3, max(ntot - 1, 0), ntot, ntot + 1, npos, max(npos - 1, 0), rng.randint(0, ntot + 1)))
    if rng.random() < 0.6:
        c = rng.random()
        if c < 0.35:
            sub = ts if cover else [t for t in ts if rng.random() < 0.6]
            kw["D_block"] = {t: rng.choice((0, 1, 2, len(blocks[t]), len(blocks[t]) + 1, max(len(blocks[t]) - 1, 0), INF)) for t in shuf(sub)}
            if empty_ok and rng.random() < 0.08:
                kw["D_block"] = {}
        else:
            kw["D_block"] = rng.choice((INF, 0, 1, 1, 2, 2, 3, max(maxD - 1, 0), maxD))
    if signed:
        # relative tolerances are only documented for non-negative reference values: 0 or "switched off"
        kw["tol"], kw["tol_block"] = rng.choice(((0, 0), (-INF, -INF), (-INF, -INF), (0, -INF), (-INF, 0)))
        return kw, kw
    if rng.random() < 0.55:
        kw["tol"] = rng.choice([0, 0, 1, 0.5, 0.25, 1e-3, 2.0, INF, 0.125] + ratio_pool(rng, allv))
    if rng.random() < 0.55:
        c = rng.random()
        if c < 0.3:
            sub = ts if cover else [t for t in ts if rng.random() < 0.6]
            kw["tol_block"] = {t: rng.choice([0, 0.5, 1, 0.25, INF] + ratio_pool(rng, blocks[t])) for t in shuf(sub)}
        else:
            t0 = rng.choice(ts) if ts else None
            kw["tol_block"] = rng.choice([0, 0.5, 1, 0.25, 1e-3, 2.0, INF] + (ratio_pool(rng, blocks[t0]) if t0 is not None else []))
    return kw, kw


def kw_desc(kw):
    out = {}
    for k, v in kw.items():
        if isinstance(v, dict):
            out[k] = {str(t): (x if x != INF else "inf") for t, x in v.items()}
        elif callable(v):
            out[k] = "<function>"
        else:
            out[k] = v if v not in (INF, -INF) else repr(v)
    return out


def kw_struct(kw):
    return tuple(sorted((k, "dict" if isinstance(v, dict) else ("inf" if v in (INF, -INF) else ("0" if v == 0 else type(v).__name__))) for k, v in kw.items()))


def read_mask(ctx, fn, m, S, blocks, w):
    """{t: bool array} of a mask tensor; structural checks (diagonal, bool, same legs as S)."""
    import yastn
    if not isinstance(m, yastn.Tensor) or not m.isdiag:
        ctx.violation(f"{fn}:mask-type", f"{fn} returned {type(m).__name__} / not diagonal", w)
        return None
    if [F.leg_tuple(l) for l in m.get_legs()] != [F.leg_tuple(l) for l in S.get_legs()]:
        ctx.violation(f"{fn}:mask-legs", f"{fn}: mask legs {m.get_legs()} differ from the legs of S {S.get_legs()}", w)
        return None
    out = {}
    for t, v in blocks.items():
        b = np.asarray(m[t + t])
        if b.dtype != np.bool_ or b.shape != v.shape:
            ctx.violation(f"{fn}:mask-type", f"{fn}: mask block {t} has dtype {b.dtype} shape {b.shape}", w)
            return None
        out[t] = b.copy()
    return out


def count_params(ctx, kw, spec, blocks):
    for k, v in kw.items():
        ctx.count(f"param:{k}" + ("-dict" if isinstance(v, dict) else ""))
    for k, v in kw.items():
        vals = list(v.values()) if isinstance(v, dict) else [v]
        if any(x == 0 for x in vals):
            ctx.count(f"value:{k}=0")
        if k in ("tol", "tol_block") and any(1 <= x < INF for x in vals):
            ctx.count(f"value:{k}>=1")
        if any(x == INF for x in vals):
            ctx.count(f"value:{k}=inf")
    if not kw:
        ctx.count("mask_no_limits")
    b, tie = spec.binds()
    for x in b:
        ctx.count(f"param:{x}-binds")
    if not b:
        ctx.count("nothing_binds")
    if tie:
        ctx.count("ties_at_cut")
    hits = spec.exact_hits + sum(1 for r in spec.readings(limit=8) if r[4])
    if hits:
        ctx.count("threshold_exactly_hit")


def judge_mask(ctx, fn, blocks, kept, kw, w, rel=EPS8):
    """Run the specification; returns True when the outcome is explained."""
    spec = Spec(blocks, kw.get("D_block", INF), kw.get("tol_block", 0), kw.get("D_total", INF), kw.get("tol", 0), rel)
    count_params(ctx, kw, spec, blocks)
    bad = spec.verify(kept)
    if bad is None:
        return True
    event, text = bad
    key = "mask:global-stage-negative-values" if event == "global-stage-negative-values" else f"{fn}:{event}"
    ctx.violation(key, f"{fn}({kw_desc(kw)}) on spectrum {{{', '.join(f'{t}: {v.tolist()[:8]}' for t, v in sorted(blocks.items()))[:600]}}}: {text}", w)
    return False


def covers(kw, blocks):
    return all((not isinstance(kw.get(k), dict)) or all(t in kw[k] for t in blocks) for k in ("D_block", "tol_block"))


def mask_case(ctx, idx, sym):
    import yastn
    rng, nprng = ctx.rng(idx), ctx.nprng(idx)
    cfg = D.make_cfg(sym)
    signed = rng.random() < 0.08
    leg, blocks, pat, shuffled = gen_spectrum(rng, nprng, sym, signed)
    S = build_S(sym, leg, blocks, cfg)
    allv = cat(blocks.values())
    ctx.count("spectra_with_zeros", int(np.any(allv == 0)))
    ctx.count("spectra_all_equal", int(pat == "all-equal"))
    ctx.count("single_element_sectors", sum(1 for v in blocks.values() if len(v) == 1))
    ctx.count("spectra_signed", int(signed))
    ctx.count("spectra_denormal", int(bool(np.any((allv != 0) & (np.abs(allv) < 2.3e-308)))))
    ctx.count("spectra_negative_zero", int(bool(np.any((allv == 0) & np.signbit(allv)))))
    ctx.count("spectra_shuffled", int(shuffled))
    before = {t: v.copy() for t, v in blocks.items()}
    structs = []
    judged = 0
    for j in range(8):
        cover = rng.random() < 0.9
        kw, _ = gen_limits(rng, blocks, signed, cover, empty_ok=True)
        w = {"sym": sym, "spectrum": {str(t): v.tolist() for t, v in blocks.items()}, "kwargs": kw_desc(kw), "leg_s": leg.s}
        m = yastn.truncation_mask(S, **kw) if rng.random() < 0.7 else yastn.linalg.truncation_mask(S, **kw)
        mb = read_mask(ctx, "truncation_mask", m, S, blocks, w)
        if mb is None:
            continue
        if kw.get("D_block") == {} and blocks:
            # an empty per-sector dictionary lists no sector: nothing is kept (same under both svd policies, see svd_lowrank_case)
            ctx.count("empty_dict:truncation_mask")
            if any(np.any(x) for x in mb.values()):
                ctx.violation("truncation_mask:empty-D_block-dict", f"truncation_mask({kw_desc(kw)}) keeps values although D_block={{}} lists no sector", w)
            continue
        if not covers(kw, blocks):
            ctx.count("unjudged:dict-does-not-cover-all-sectors")
            continue
        if not thresholds_unambiguous(blocks, kw.get("tol_block", 0), kw.get("tol", 0)):
            ctx.count("unjudged:relative-tolerance-on-signed-values")
            continue
        kept = {t: blocks[t][mb[t]] for t in blocks}
        judge_mask(ctx, "truncation_mask", blocks, kept, kw, w)
        ctx.count("masks_judged")
        if signed:
            ctx.count("masks_judged_signed")
        judged += 1
        structs.append(kw_struct(kw))
        if rng.random() < 0.3:
            # all limits are counts or RELATIVE tolerances: the kept set is invariant under S -> c S, c > 0 (exact for powers of two)
            c = 2.0 ** rng.choice((-660, -300, -60, 60, 300, 660))
            sb = {t: v * c for t, v in blocks.items()}
            tols = [x for k_ in ("tol", "tol_block") for x in (kw[k_].values() if isinstance(kw.get(k_), dict) else [kw.get(k_, 0)]) if 0 < x < INF]
            nzmax = [float(np.max(np.abs(v))) for v in blocks.values() if np.any(v)]
            normal = all(np.all((v == 0) | (np.abs(v) * min(c, 1.0) > 1e-290)) for v in blocks.values()) and \
                (not tols or not nzmax or min(tols) * min(nzmax) * min(c, 1.0) > 1e-290)       # thresholds tol * max stay normal numbers
            if normal and all(np.all(np.isfinite(x)) and np.all(x / c == blocks[t]) for t, x in sb.items()):
                mc = read_mask(ctx, "truncation_mask", yastn.truncation_mask(build_S(sym, leg, sb, cfg), **kw), S, blocks, w)
                if mc is not None:
                    ctx.count("scale_invariance_checked")
                    if any(np.any(np.sort(blocks[t][mb[t]]) != np.sort(blocks[t][mc[t]])) if mb[t].sum() == mc[t].sum() else True for t in blocks):
                        ctx.violation("truncation_mask:not-scale-invariant", f"truncation_mask({kw_desc(kw)}) keeps "
                                      f"{ {str(t): blocks[t][mb[t]].tolist() for t in blocks} } of S but "
                                      f"{ {str(t): blocks[t][mc[t]].tolist() for t in blocks} } (rescaled) of {c:g} * S", w)
            else:
                ctx.count("unjudged:scaling-not-exact")
    # the same relative tolerance as tol and as tol_block on a single-sector spectrum: same decision at an exact threshold
    if len(blocks) == 1 and not signed:
        (t, v), = blocks.items()
        for x in ratio_pool(rng, v)[:4] + [1, 0.5]:
            ma = read_mask(ctx, "truncation_mask", yastn.truncation_mask(S, tol=x), S, blocks, {})
            mb = read_mask(ctx, "truncation_mask", yastn.truncation_mask(S, tol_block=x), S, blocks, {})
            if ma is None or mb is None:
                break
            ctx.count("stage_consistency_checked")
            ka, kb_ = np.sort(v[ma[t]]), np.sort(v[mb[t]])
            ka, kb_ = ka[ka != 0], kb_[kb_ != 0]
            if ka.shape != kb_.shape or np.any(ka != kb_):
                ctx.violation("truncation_mask:tol-vs-tol_block-inconsistent",
                              f"single-sector spectrum {v.tolist()}: tol={x} keeps {ka.tolist()} but tol_block={x} keeps {kb_.tolist()}",
                              {"spectrum": v.tolist(), "x": x})
                break
    for t in blocks:
        got = np.asarray(S[t + t])
        if got.shape != before[t].shape or np.any(got != before[t]):
            ctx.violation("truncation_mask:operand-modified", "truncation_mask changed the values of S", {"sym": sym})
            break
    ctx.case(("mask", sym, leg.s, tuple((t, len(v)) for t, v in blocks.items()), pat, shuffled, signed, tuple(structs)),
             len(allv) >= 2 and judged > 0,
             {"workload": "mask", "sym": sym, "pattern": pat, "spectrum": {str(t): v.tolist() for t, v in blocks.items()},
              "last_kwargs": kw_desc(kw)} if idx % 40 == 0 else None)


# ------------------------------------------------------------------ (B) multiplets

def rel_gap(a, b):
    m = max(abs(a), abs(b))
    return 0.0 if m == 0 else abs(a - b) / m


def judge_multiplets_flag(ctx, blocks, kept, kw, w, rel=EPS8):
    """truncate_multiplets=True: D_block / tol_block ignored; cut K0 = min(D_total, #{v > tol max}) moved to the largest gap at or after K0."""
    s = np.sort(cat(blocks.values()))[::-1]
    n = len(s)
    mx = float(np.max(np.abs(s))) if n else 0.0
    ns, ne, same = classify(s, _thr(kw.get("tol", 0), mx), rel)
    kept_all = np.sort(cat(kept.values()))[::-1]
    kept_nz = kept_all[kept_all != 0]
    accepted = []
    for N in options(ns, ne, same):
        K0 = capped(kw.get("D_total", INF), N)
        if K0 == 0:
            ps = [0]
        elif K0 >= n:
            ps = [n]
        else:
            gaps = np.array([s[p - 1] - s[p] for p in range(K0, n)])        # cut after the p-th largest, p = K0 .. n-1
            g = float(np.max(gaps))
            ps = [K0 + i for i, x in enumerate(gaps) if x >= g * (1 - 1e-12)]
        for p in ps:
            exp = s[:p]
            exp = exp[exp != 0]
            accepted.append(p)
            if exp.shape == kept_nz.shape and np.all(exp == kept_nz) and len(kept_all) <= p:
                if p > K0:
                    ctx.count("multiplet_cut_moved")
                return True
    ctx.violation("truncation_mask:truncate_multiplets", f"truncate_multiplets=True ({kw_desc(kw)}) on values {s.tolist()[:12]}: kept "
                  f"{kept_all.tolist()[:12]}; accepted cut positions {sorted(set(accepted))} (largest gap at or after min(D_total, #above tol))", w)
    return False


def judge_mask_multiplets(ctx, blocks, kept, kw, w):
    """truncation_mask_multiplets: cut at the nearest multiplet boundary at or below K0 = min(D_total, #{v > tol max}).

    returns True (explained), None (not judged: documentation silent), False (violation reported)."""
    s = np.sort(cat(blocks.values()))[::-1]
    n = len(s)
    eps = kw.get("eps_multiplet", 1e-13)
    mx = float(s[0]) if n else 0.0
    ns, ne, same = classify(s, _thr(kw.get("tol", 0), mx))
    kept_all = np.sort(cat(kept.values()))[::-1]
    kept_nz = kept_all[kept_all != 0]
    accepted, unjudged, K0max = [], None, 0
    for N in options(ns, ne, same):
        K0 = capped(kw.get("D_total", INF), N)
        K0max = max(K0max, K0)
        if K0 >= n:
            p = n
        else:
            p = None
            for i in range(K0, 0, -1):                      # boundary between the i-th and (i+1)-th largest
                r = rel_gap(s[i - 1], s[i])
                if max(abs(s[i - 1]), abs(s[i])) < 1e-9 or abs(r - eps) <= 1e-6 * eps:
                    unjudged = "unjudged:multiplet-gap-at-eps"
                    break
                if r > eps:
                    p = i
                    break
            else:
                if K0 == 0:
                    p = 0
                else:
                    # the leading multiplet is larger than the limit: no boundary exists, the docstring does not say what happens
                    unjudged = "unjudged:leading-multiplet-exceeds-limit"
            if p is None:
                continue
        accepted.append(p)
        exp = s[:p]
        exp = exp[exp != 0]
        if exp.shape == kept_nz.shape and np.all(exp == kept_nz) and len(kept_all) <= p:
            if p < K0:
                ctx.count("multiplet_cut_moved")
            return True
    if len(kept_all) > K0max:
        ctx.violation("truncation_mask_multiplets:limit-exceeded", f"truncation_mask_multiplets({kw_desc(kw)}) on values {s.tolist()[:12]}: "
                      f"{len(kept_all)} values kept, the limits allow at most {K0max}", w)
        return False
    if unjudged:
        ctx.count(unjudged)
        return None
    ctx.violation("truncation_mask_multiplets:cut", f"truncation_mask_multiplets({kw_desc(kw)}) on values {s.tolist()[:12]}: kept "
                  f"{kept_all.tolist()[:12]}; expected the {sorted(set(accepted))} largest (nearest multiplet boundary at or below the limits)", w)
    return False


def multiplet_cuts(s, kw):
    """Accepted cut positions p of truncation_mask_multiplets on the descending values s (None: documentation silent)."""
    n = len(s)
    eps = kw.get("eps_multiplet", 1e-13)
    ns, ne, same = classify(s, _thr(kw.get("tol", 0), float(s[0]) if n else 0.0))
    out = []
    for N in options(ns, ne, same):
        K0 = capped(kw.get("D_total", INF), N)
        if K0 >= n:
            out.append(n)
            continue
        for i in range(K0, 0, -1):
            r = rel_gap(s[i - 1], s[i])
            if max(abs(s[i - 1]), abs(s[i])) < 1e-9 or abs(r - eps) <= 1e-6 * eps:
                return None
            if r > eps:
                out.append(i)
                break
        else:
            if K0 > 0:
                return None
            out.append(0)
    return out


def hermitian_multiplet_case(ctx, idx, sym, rng):
    """truncation_mask_multiplets(hermitian=True): sectors t and -t are 'truncated equally' = position i is kept in both or in none."""
    import yastn
    box = [t for t in D.charge_box(sym) if G.neg(sym, t) != t and G.neg(sym, t) in D.charge_box(sym)]
    if not box:
        return False
    t = rng.choice(box)
    tn = G.neg(sym, t)
    Dt = rng.randint(1, 5)
    levels = [1.0, 0.7, 0.5, 0.3, 0.1, 0.01]
    base = sorted((rng.choice(levels) for _ in range(Dt)), reverse=True)
    other = list(base)
    how = rng.choice(("equal", "perturbed", "shorter"))
    if how == "perturbed":
        other = sorted((v * rng.choice((1.0, 1.0, 0.9, 1.1)) for v in base), reverse=True)
    elif how == "shorter" and Dt > 1:
        other = other[:rng.randint(1, Dt - 1)]
    blocks = {t: np.array(base), tn: np.array(other)}
    if rng.random() < 0.5 and G.zero(sym) not in blocks:
        blocks[G.zero(sym)] = np.array(sorted((rng.choice(levels) for _ in range(rng.randint(1, 3))), reverse=True))
    leg = D.HLeg(sym, rng.choice((1, -1)), [(c, len(v)) for c, v in blocks.items()])
    S = build_S(sym, leg, blocks, D.make_cfg(sym))
    ntot = sum(len(v) for v in blocks.values())
    kw = {"D_total": rng.randint(0, ntot + 1), "eps_multiplet": rng.choice((1e-13, 1e-3))}
    w = {"sym": sym, "spectrum": {str(c): v.tolist() for c, v in blocks.items()}, "kwargs": kw_desc(kw), "hermitian": True}
    try:
        m = yastn.truncation_mask_multiplets(S, hermitian=True, **kw)
    except Exception as e:
        if type(e).__name__ != "YastnError" or "does not have the block" not in str(e):
            raise
        # both sectors t and -t are present, so no block lookup may fail: the library negates the 2*NSYM-long block key (t, t) as if it
        # were one charge, which mis-reduces cyclic components of product symmetries (Z2xU1, U1xU1xZ2)
        ctx.count("multiplets_hermitian_rejected")
        ctx.violation("truncation_mask_multiplets:hermitian:conjugate-sector-key",
                      f"truncation_mask_multiplets(hermitian=True) raised YastnError({e}) although the sectors {t} and {tn} = -{t} are both "
                      f"present in S (symmetry {sym})", w)
        ctx.case(("multiplets-hermitian-rejected", sym), False)
        return True
    mb = read_mask(ctx, "truncation_mask_multiplets", m, S, blocks, w)
    if mb is None:
        return True
    s = np.sort(cat(blocks.values()))[::-1]
    ps = multiplet_cuts(s, kw)
    if ps is None:
        ctx.count("unjudged:leading-multiplet-exceeds-limit")
        return True
    ok = False
    for p in ps:
        cut = s[p - 1] if p > 0 else INF
        top = {c: v >= cut for c, v in blocks.items()}           # the cut is at a gap: membership in the top-p set is by value
        exp = {c: x.copy() for c, x in top.items()}
        cs = min(len(blocks[t]), len(blocks[tn]))
        both = top[t][:cs] & top[tn][:cs]
        exp[t][:cs], exp[tn][:cs] = both, both
        if all(np.array_equal(exp[c], mb[c]) for c in blocks):
            ok = True
    ctx.count("multiplet_masks_judged")
    ctx.count("multiplets_hermitian_judged")
    if not ok:
        ctx.violation("truncation_mask_multiplets:hermitian", f"truncation_mask_multiplets(hermitian=True, {kw_desc(kw)}) on {w['spectrum']}: mask "
                      f"{ {str(c): x.tolist() for c, x in mb.items()} }; expected sectors {t} and {tn} to keep position i only if both are inside "
                      f"the cut (accepted cuts {ps})", w)
    ctx.case(("multiplets-hermitian", sym, how, tuple(len(v) for v in blocks.values())), True)
    return True


def multiplet_case(ctx, idx, sym):
    import yastn
    rng, nprng = ctx.rng(idx), ctx.nprng(idx)
    if rng.random() < 0.2 and hermitian_multiplet_case(ctx, idx, sym, rng):
        return
    cfg = D.make_cfg(sym)
    leg, blocks, pat, shuffled = gen_spectrum(rng, nprng, sym, False)
    # multiplets: replace values by a few levels with small (or no) splitting
    if rng.random() < 0.6:
        levels = sorted({rng.choice((1.0, 0.7, 0.5, 0.3, 0.1, 0.01, 1e-4)) for _ in range(4)}, reverse=True)
        split = rng.choice((0.0, 0.0, 1e-15, 1e-10, 1e-6))
        blocks = {t: np.array(sorted((rng.choice(levels) * (1 + split * rng.random()) for _ in v), reverse=True)) for t, v in blocks.items()}
        pat = "levels"
    S = build_S(sym, leg, blocks, cfg)
    allv = cat(blocks.values())
    ntot = len(allv)
    judged = 0
    for j in range(6):
        kw = {}
        if rng.random() < 0.8:
            kw["D_total"] = rng.choice((INF, 0, 1, 2, 3, 4, max(ntot - 1, 0), ntot, ntot + 1, rng.randint(0, ntot + 1)))
        if rng.random() < 0.5:
            kw["tol"] = rng.choice([0, 0.5, 1e-3, 0.25, 1, 1e-12] + ratio_pool(rng, allv))
        w = {"sym": sym, "spectrum": {str(t): v.tolist() for t, v in blocks.items()}}
        if j % 2 == 0:
            kwf = dict(kw)
            if rng.random() < 0.5:      # documented to be ignored with truncate_multiplets=True
                kwf["D_block"] = rng.choice((0, 1, 2))
                kwf["tol_block"] = rng.choice((0.5, 1, 0.9))
            w["kwargs"] = kw_desc(kwf)
            m = yastn.truncation_mask(S, truncate_multiplets=True, **kwf)
            mb = read_mask(ctx, "truncation_mask", m, S, blocks, w)
            if mb is None:
                continue
            judge_multiplets_flag(ctx, blocks, {t: blocks[t][mb[t]] for t in blocks}, kw, w)
            ctx.count("multiplet_masks_judged")
            ctx.count("truncate_multiplets_flag")
            judged += 1
        else:
            if rng.random() < 0.6:
                kw["eps_multiplet"] = rng.choice((1e-13, 1e-8, 1e-3, 0.2))
            w["kwargs"] = kw_desc(kw)
            m = yastn.truncation_mask_multiplets(S, **kw)
            mb = read_mask(ctx, "truncation_mask_multiplets", m, S, blocks, w)
            if mb is None:
                continue
            r = judge_mask_multiplets(ctx, blocks, {t: blocks[t][mb[t]] for t in blocks}, kw, w)
            if r is not None:
                ctx.count("multiplet_masks_judged")
                ctx.count("truncation_mask_multiplets_fn")
                judged += 1
    ctx.case(("multiplets", sym, leg.s, tuple((t, len(v)) for t, v in blocks.items()), pat), ntot >= 2 and judged > 0,
             {"workload": "multiplets", "sym": sym, "spectrum": {str(t): v.tolist() for t, v in blocks.items()}} if idx % 40 == 1 else None)


# ------------------------------------------------------------------ (C) decompositions

REL_RECOMPUTED = 1e-12     # two computations of the same spectrum agree to rounding: values closer than this are ties


def cluster(full, rel=REL_RECOMPUTED):
    """{t: values} -> {t: representatives}: values within ``rel`` (relative, chained) share one representative, values below
    rel * (largest value of the spectrum) are numerical zeros (representative 0.0, weightless)."""
    items = []
    # noise floor relative to the largest value of the whole spectrum: a sector that is zero up to rounding of the operand
    # (values ~1e-16 ||a||) holds no weight, whatever the ratios between its own noise values
    mx = max((float(np.max(np.abs(np.asarray(v, dtype=float)))) for v in full.values() if len(v)), default=0.0)
    for t, v in full.items():
        v = np.asarray(v, dtype=float)
        items += [(float(x), t, i, abs(x) <= rel * mx) for i, x in enumerate(v)]
    out = {t: np.zeros(len(v)) for t, v in full.items()}
    cur = None
    for x, t, i, tiny in sorted(items, key=lambda z: -z[0]):
        if tiny:
            continue
        if cur is None or abs(cur - x) > rel * abs(cur):
            cur = x
        out[t][i] = cur
    return out


def match_kept(full, reps, kept, scale, rel=None):
    """Map every kept value to a distinct value of the full sector spectrum (nearest); returns their representatives | None."""
    full = list(np.asarray(full, dtype=float))
    reps = list(np.asarray(reps, dtype=float))
    out, raw = [], []
    for v in np.asarray(kept, dtype=float):
        if not full:
            return None, None
        j = int(np.argmin([abs(v - x) for x in full]))
        if abs(v - full[j]) > (rel or REL_RECOMPUTED) * max(scale, 1e-300):
            return None, None
        raw.append(full.pop(j))
        out.append(reps.pop(j))
    return np.array(out, dtype=float), np.array(raw, dtype=float)


def limits_for_decomp(rng, full, allow_dict=True):
    kw, _ = gen_limits(rng, full, False, True)
    if not allow_dict:
        kw = {k: v for k, v in kw.items() if not isinstance(v, dict)}
    return kw


def trunc_observe(ctx, fn, E, ht, operand, left, right, U, S, V, sU, Un, Vn, Uaxis, Vaxis, w, herm=False, iso_tol=None):
    """Structure of the truncated factors and their dense images; returns (Um, s, Vm, kept blocks) or None."""
    from checks import c04
    sym = E.sym
    ok = c04.check_charge(ctx, fn, "U", U, Un, w) & c04.check_charge(ctx, fn, "S", S, G.zero(sym), w)
    if V is not None:
        ok &= c04.check_charge(ctx, fn, "V", V, Vn, w)
    s = c04.svals_dense(ctx, fn, S, sU, w)
    if s is None or not ok:
        return None
    lu = c04.check_new_leg(ctx, fn, "U", U, Uaxis, sU, F.leg_tuple(S.get_legs(1)), w)
    if lu is None:
        return None
    flatL, flatR = F.flat_axes(operand, left), F.flat_axes(operand, right)
    bad, Ud, _ = F.observe_factor(U, Uaxis, [operand.tops[i] for i in left], [ht.legs[i] for i in flatL], lu)
    if bad:
        ctx.violation(f"{fn}:factor-legs:U", f"{fn}: U: {bad}", w)
        return None
    Um = F.mat_last(Ud)
    Vm = None
    if V is not None:
        lv = c04.check_new_leg(ctx, fn, "V", V, Vaxis, -sU, F.leg_tuple(S.get_legs(0)), w)
        if lv is None:
            return None
        bad, Vd, _ = F.observe_factor(V, Vaxis, [operand.tops[i] for i in right], [ht.legs[i] for i in flatR], lv)
        if bad:
            ctx.violation(f"{fn}:factor-legs:V", f"{fn}: V: {bad}", w)
            return None
        Vm = F.mat_first(Vd)
        c04.check_identity(ctx, fn, "VV^+", Vm @ Vm.conj().T, w, iso_tol or c04.TOL_ISO)
    c04.check_identity(ctx, fn, "U^+U", Um.conj().T @ Um, w, iso_tol or (c04.TOL_ISO if V is not None else c04.TOL_ISO_EIGH))
    return Um, s, Vm, F.diag_blocks(S)


def svd_trunc_case(ctx, idx, sym):
    import yastn
    from checks import c04
    E = c04.Env(ctx, idx, sym)
    E.ctx = ctx
    rng = E.rng
    pure = rng.random() < 0.06          # svd_with_truncation(a) on a matrix: no argument at all = plain svd, nothing discarded
    ht = E.tensor(rank=2 if pure else None)
    designed = rng.random() < 0.45 and bool(ht.blocks)
    state = rng.getstate()
    okw = {"fusion": "none"} if pure else {}
    operand = F.make_operand(rng, ht, E.cfg, **okw)
    left, right = ((0,), (1,)) if pure else F.bipartition(rng, operand.nlegs)
    flatL, flatR = F.flat_axes(operand, left), F.flat_axes(operand, right)
    if designed:
        ht = F.redesign_svd(rng, ht, flatL, flatR)
        ctx.count("decomp_designed_spectrum")
    csc = F.draw_scale(rng)
    if csc != 1.0 and ht.blocks:
        ht = F.scaled(ht, csc)
        ctx.count("scaled_operands")
    if designed or csc != 1.0:
        r2 = random.Random()
        r2.setstate(state)
        operand = F.make_operand(r2, ht, E.cfg, **okw)
    ctx.count("decomp_fused", int(bool(operand.info["fusion"])))
    ctx.count("decomp_lazy", int(operand.info["state"] != "plain" or operand.info["post"] != "none"))
    axes = F.axes_arg(rng, left, right)
    sU, nU = rng.choice((1, -1)), rng.choice((True, False))
    Uaxis, Vaxis = F.rand_axis(rng, len(left) + 1), F.rand_axis(rng, len(right) + 1)
    base = {"axes": axes, "sU": sU, "nU": nU}
    if rng.random() < 0.3:
        base["fix_signs"] = True
    if pure:
        sU, nU, Uaxis, Vaxis, base = 1, True, -1, 0, {}
    Un, Vn = (ht.n, G.zero(sym)) if nU else (G.zero(sym), ht.n)
    sec = F.Sectors(ht, flatL, flatR, sU, Un)
    anorm = F.fro(sec.M)
    # full spectrum from the library (same arguments), anchored to NumPy
    Sf = yastn.svd(operand.y, compute_uv=False, **base) if rng.random() < 0.5 else yastn.svd(operand.y, **base)[1]
    full_raw = F.diag_blocks(Sf)
    full = cluster(full_raw)      # svd_with_truncation recomputes the spectrum: values equal to rounding are ties, noise is zero
    w = {"sym": sym, "tensor": ht.desc(values=ht.size() <= 120), "operand": operand.info, "axes": [list(left), list(right)],
         "sU": sU, "nU": nU, "Uaxis": Uaxis, "Vaxis": Vaxis, "full_spectrum": {str(t): v.tolist() for t, v in full_raw.items()}}
    if not c04.compare_spectra(ctx, "svd", Sf, sec, "svd", None, anorm, w):
        return
    if any(t not in sec.sec for t in full):
        ctx.violation("svd_with_truncation:new-leg-charges", f"sectors {sorted(full)} vs charge conservation {sorted(sec.sec)}", w)
        return
    mode = "defaults" if pure else rng.choice(("limits", "limits", "limits", "limits", "dict", "dict", "multiplets", "mask_f", "defaults"))
    kw = {}
    if mode == "dict" and not full:
        mode = "defaults"
    if mode == "dict":
        # the per-sector dictionary is THE binding limit: keyed by the new-leg charges, values not symmetric under t -> -t
        kw = {"D_block": sector_dict(ctx, rng, sym, full_raw, "decomp_dict_asymmetric")}
        extra = limits_for_decomp(rng, full, False)
        for name in ("D_total", "tol", "tol_block"):
            if name in extra and rng.random() < 0.3:
                kw[name] = extra[name]
        ctx.count("decomp_dict_by_charge")
        mode = "limits"
    elif mode == "limits":
        kw = limits_for_decomp(rng, full)
        if isinstance(kw.get("D_block"), dict) or isinstance(kw.get("tol_block"), dict):
            ctx.count("decomp_dict_by_charge")
    elif mode == "multiplets":
        kw = {k: v for k, v in limits_for_decomp(rng, full, False).items() if k in ("D_total", "tol")}
        kw["truncate_multiplets"] = True
    elif mode == "mask_f":
        k = rng.randint(0, sum(len(v) for v in full.values()) + 1)
        inner = {"D_total": k}
        # documented: mask_f overrides all other truncation-related arguments -> pass conflicting ones
        kw = {"mask_f": (lambda x: yastn.truncation_mask(x, **inner))}
        for name, vals in (("tol", (0.9, 1)), ("tol_block", (0.9,)), ("D_block", (0, 1)), ("D_total", (0, 1))):
            if rng.random() < 0.6:
                kw[name] = rng.choice(vals)
        ctx.count("mask_f_used")
    w["kwargs"] = kw_desc(kw)
    if pure:
        U, S, V = yastn.svd_with_truncation(operand.y) if rng.random() < 0.7 else operand.y.svd_with_truncation()
        ctx.count("pure_defaults:svd_with_truncation")
    else:
        U, S, V = yastn.svd_with_truncation(operand.y, Uaxis=Uaxis, Vaxis=Vaxis, **base, **kw) if rng.random() < 0.7 else \
            operand.y.svd_with_truncation(Uaxis=Uaxis, Vaxis=Vaxis, **base, **kw)
    E.count_call("svd_with_truncation", operand, ((U, Uaxis), (V, Vaxis)))
    ctx.count("svd_with_truncation")
    obs = trunc_observe(ctx, "svd_with_truncation", E, ht, operand, left, right, U, S, V, sU, Un, Vn, Uaxis, Vaxis, w)
    if obs is None:
        return
    Um, s, Vm, keptb = obs
    kept, kept_raw = {}, {}
    for t, v in keptb.items():
        mk, kept_raw[t] = match_kept(full_raw[t], full[t], v, anorm) if t in full else (None, None)
        if mk is None:
            ctx.violation("svd_with_truncation:kept-not-in-spectrum", f"sector {t}: kept values {v.tolist()[:8]} are not values of the full "
                          f"spectrum {np.asarray(full_raw.get(t, [])).tolist()[:8]}", w)
            return
        if np.any(np.diff(v) > 0):
            ctx.violation("svd_with_truncation:S-order", f"sector {t}: truncated singular values are not non-increasing {v.tolist()[:8]}", w)
        kept[t] = mk
    if mode == "multiplets":
        judge_multiplets_flag(ctx, full, kept, {k: v for k, v in kw.items() if k in ("D_total", "tol")}, w, REL_RECOMPUTED)
        ctx.count("multiplet_masks_judged")
    elif mode == "mask_f":
        judge_mask(ctx, "svd_with_truncation", full, kept, inner, w, REL_RECOMPUTED)
    else:
        judge_mask(ctx, "svd_with_truncation", full, kept, kw, w, REL_RECOMPUTED)
    ctx.count("decompositions_judged")
    # error identity on the dense truth
    disc = collections.Counter(cat(full_raw.values()).tolist())
    disc.subtract(collections.Counter(cat(kept_raw.values()).tolist()))
    dn = F.norm_of(disc.items())
    err = F.fro((Um * s[None, :]) @ Vm - sec.M)
    ctx.count("error_identity_checked")
    ctx.count("error_identity_nonzero", int(dn > 0))
    if not ctx.margin("svd_with_truncation:error-identity", abs(err - dn), 1e-12 * max(anorm, 1e-300)):
        ctx.violation("svd_with_truncation:error-identity", f"||a - U S V|| = {err:.6e} but the discarded singular values have norm {dn:.6e} "
                      f"(||a|| = {anorm:.3e})", w)
    ctx.case(("svd_trunc", operand.sig(), left, right, sU, nU, Uaxis, Vaxis, mode, kw_struct({k: v for k, v in kw.items() if k != 'mask_f'})),
             sum(len(v) for v in full.values()) >= 2,
             {"workload": "svd_with_truncation", "sym": sym, "kwargs": kw_desc(kw), "full": {str(t): v.tolist() for t, v in full_raw.items()},
              "kept": {str(t): v.tolist() for t, v in kept_raw.items()}} if idx % 40 == 2 else None)


def sector_dict(ctx, rng, sym, full_raw, counter):
    """Per-sector limits covering every sector of the spectrum, in general different for t and -t."""
    ts = sorted(full_raw)
    lim = {t: rng.choice((0, 1, 2, 3, len(full_raw[t]), len(full_raw[t]) + 1, max(len(full_raw[t]) - 1, 0)) + ((6, 11, 17) if len(full_raw[t]) > 30 else ()))
           for t in rng.sample(ts, len(ts))}          # any insertion order
    if all(v == 0 for v in lim.values()):
        lim[ts[0]] = 1
    if any(lim.get(G.neg(sym, t)) != lim[t] for t in ts):
        ctx.count(counter)
    return lim


def big_matrix(E):
    """Rank-2 tensor of charge 0 with one sector whose block has more than 5000 elements (the ARPACK branch of svds_scipy)."""
    rng = E.rng
    leg = D.gen_leg(rng, E.sym, nsec=(1, 3), dmax=4)
    secs = list(leg.sectors)
    j = rng.randrange(len(secs))
    dl = [Dt for _, Dt in secs]
    dr = [rng.randint(1, 4) for _ in secs]
    dl[j], dr[j] = rng.randint(72, 80), rng.randint(71, 78)
    l = D.HLeg(E.sym, leg.s, [(t, d) for (t, _), d in zip(secs, dl)])
    r = D.HLeg(E.sym, -leg.s, [(t, d) for (t, _), d in zip(secs, dr)])
    legs = [l, r] if rng.random() < 0.5 else [r, l]
    return D.gen_tensor(rng, E.nprng, E.sym, legs=legs, n=G.zero(E.sym), density=1.0)


def empty_dict_clauses(ctx, E, rng, ht, operand, left, right, base, sU, nU, Un, Vn, Uaxis, Vaxis, full_raw, sec, anorm, maxD, w):
    """Empty per-sector dictionaries.  D_block={}: no sector is listed, nothing is kept under either policy and the error is ||a||.
    tol_block={}: the kept set is the same under policy='fullrank' and 'lowrank'.  k_block={} (lowrank only; fullrank ignores k_block):
    the call must work and return well-formed factors of values of the spectrum with error = discarded norm."""
    import yastn
    which = rng.choice(("D_block", "D_block", "tol_block", "k_block"))
    big = maxD + rng.randint(0, 3)
    calls = {"D_block": [("fullrank", {"D_block": {}}), ("lowrank", {"D_block": {}})],
             "tol_block": [("fullrank", {"tol_block": {}, "D_block": big}), ("lowrank", {"tol_block": {}, "D_block": big})],
             "k_block": [("lowrank", {"k_block": {}}), ("fullrank", {"k_block": {}})]}[which]
    extra = {}
    if rng.random() < 0.4:
        extra["D_total"] = rng.choice((1, 2, maxD, 2 * maxD))
    kept_by_policy = {}
    for policy, kw in calls:
        w2 = dict(w, kwargs=kw_desc({**kw, **extra}), policy=policy)
        U, S, V = yastn.svd_with_truncation(operand.y, policy=policy, Uaxis=Uaxis, Vaxis=Vaxis, **base, **kw, **extra)
        ctx.count(f"empty_dict:{which}:{policy}")
        obs = trunc_observe(ctx, "svd_with_truncation:empty-dict", E, ht, operand, left, right, U, S, V, sU, Un, Vn, Uaxis, Vaxis, w2)
        if obs is None:
            return
        Um, s, Vm, keptb = obs
        raw = {}
        for t, v in keptb.items():
            mk, raw[t] = match_kept(full_raw[t], full_raw[t], v, anorm) if t in full_raw else (None, None)
            if mk is None:
                ctx.violation("svd_with_truncation:empty-dict:kept-not-in-spectrum", f"{policy} {kw_desc(kw)}: sector {t} kept {v.tolist()[:6]}", w2)
                return
        disc = collections.Counter(cat(full_raw.values()).tolist())
        disc.subtract(collections.Counter(cat(raw.values()).tolist()))
        dn, err = F.norm_of(disc.items()), F.fro((Um * s[None, :]) @ Vm - sec.M)
        if not ctx.margin("svd_with_truncation:empty-dict:error-identity", abs(err - dn), 1e-12 * max(anorm, 1e-300)):
            ctx.violation("svd_with_truncation:empty-dict:error-identity", f"{policy} {kw_desc(kw)}: ||a - USV|| = {err:.6e}, discarded norm {dn:.6e}", w2)
        kept_by_policy[policy] = {t: np.sort(v) for t, v in raw.items() if len(v)}
        if which == "D_block" and len(s):
            ctx.violation("svd_with_truncation:empty-D_block-dict", f"policy={policy}: D_block={{}} lists no sector but {len(s)} values are kept "
                          f"(error {err:.3e}, ||a|| = {anorm:.3e})", w2)
    if which != "k_block":
        a_, b_ = kept_by_policy.get("fullrank", {}), kept_by_policy.get("lowrank", {})
        same = set(a_) == set(b_) and all(a_[t].shape == b_[t].shape and np.allclose(a_[t], b_[t], rtol=1e-10, atol=0) for t in a_)
        ctx.count("empty_dict_policies_compared")
        if not same:
            ctx.violation("svd_with_truncation:policy-dependence:empty-dict", f"{which}={{}}: fullrank keeps "
                          f"{ {str(t): v.tolist()[:6] for t, v in a_.items()} }, lowrank keeps { {str(t): v.tolist()[:6] for t, v in b_.items()} }", w)
    ctx.case(("svd-empty-dict", which, operand.sig(), sU, nU), True)


def svd_lowrank_case(ctx, idx, sym):
    """svd_with_truncation(policy='lowrank'): at most D_block (k_block) triples per block are computed - block-wise full svd cut to k
    for small blocks, ARPACK for blocks with > 5000 elements and k < min(dims) - 1 - and then masked.  Same specification as fullrank,
    judged against the FULL spectrum; per-sector dictionaries are keyed by the charges of the new leg (charge conservation)."""
    import yastn
    from checks import c04
    E = c04.Env(ctx, idx, sym)
    rng = E.rng
    big = rng.random() < 0.2
    ht = big_matrix(E) if big else E.tensor()
    if not ht.blocks:
        ht = big_matrix(E)
        big = True
    state = rng.getstate()
    fus = "none" if big else None
    operand = F.make_operand(rng, ht, E.cfg, fusion=fus)
    left, right = F.bipartition(rng, operand.nlegs)
    flatL, flatR = F.flat_axes(operand, left), F.flat_axes(operand, right)
    # spectra with clear gaps (ratio 0.8 between consecutive values, all values of all sectors distinct): Arnoldi accuracy and ties are not the issue
    nsec = max(1, len(F.Sectors(ht, flatL, flatR, 1, ht.n).sec))
    ht = F.redesign_svd(rng, ht, flatL, flatR, values=lambda k, i: [0.8 ** (j + i / nsec) for j in range(k)])
    csc = F.draw_scale(rng)
    if big and csc != 1.0:
        # scipy's svds runs ARPACK on A^H A, whose convergence test is absolute below eps^(2/3): for ||a|| ~ 1e-60 the leading
        # singular values come out with relative error ~1e-6 (0.4 % at 1e-150).  A limit of the third-party solver, reported, not
        # judged: operands whose blocks go through ARPACK keep their natural scale
        csc = 1.0
        ctx.count("unjudged:arpack-at-extreme-scale")
    if csc != 1.0:
        ht = F.scaled(ht, csc)
        ctx.count("scaled_operands")
    r2 = random.Random()
    r2.setstate(state)
    operand = F.make_operand(r2, ht, E.cfg, fusion=fus)
    ctx.count("decomp_fused", int(bool(operand.info["fusion"])))
    ctx.count("decomp_lazy", int(operand.info["state"] != "plain" or operand.info["post"] != "none"))
    axes = F.axes_arg(rng, left, right)
    sU, nU = rng.choice((1, -1)), rng.choice((True, False))
    Uaxis, Vaxis = F.rand_axis(rng, len(left) + 1), F.rand_axis(rng, len(right) + 1)
    base = {"axes": axes, "sU": sU, "nU": nU}
    if rng.random() < 0.2:
        base["fix_signs"] = True
    Un, Vn = (ht.n, G.zero(sym)) if nU else (G.zero(sym), ht.n)
    sec = F.Sectors(ht, flatL, flatR, sU, Un)
    anorm = F.fro(sec.M)
    Sf = yastn.svd(operand.y, **base)[1]                 # full spectrum (fullrank), anchored to NumPy
    full_raw = F.diag_blocks(Sf)
    w = {"sym": sym, "tensor": ht.desc(values=ht.size() <= 120), "operand": operand.info, "axes": [list(left), list(right)],
         "sU": sU, "nU": nU, "Uaxis": Uaxis, "Vaxis": Vaxis, "policy": "lowrank", "full_spectrum": {str(t): v.tolist()[:12] for t, v in full_raw.items()}}
    if not c04.compare_spectra(ctx, "svd", Sf, sec, "svd", None, anorm, w):
        return
    if not full_raw or any(t not in sec.sec for t in full_raw):
        return
    ts = sorted(full_raw)
    # the block-charge the library sees is the negated new-leg charge for these argument combinations (first column / row leg)
    s_col, s_row = ht.legs[flatR[0]].s, ht.legs[flatL[0]].s
    negated = (nU and sU != s_col) or ((not nU) and sU != -s_row)
    maxD = max(len(v) for v in full_raw.values())
    if rng.random() < 0.15:
        empty_dict_clauses(ctx, E, rng, ht, operand, left, right, base, sU, nU, Un, Vn, Uaxis, Vaxis, full_raw, sec, anorm, maxD, w)
        return
    form = rng.choice(("int", "dict", "dict", "dict", "k_int", "k_dict"))
    if form.endswith("int"):
        lim = rng.choice((1, 2, 3, max(maxD - 1, 1), maxD, maxD + 2) + ((5, 8, 12, 20) if big else ()))
    else:
        before = ctx.counters["lowrank_dict_asymmetric"]
        lim = sector_dict(ctx, rng, sym, full_raw, "lowrank_dict_asymmetric")
        ctx.count("lowrank_dict_asymmetric_negated_combo", int(negated and ctx.counters["lowrank_dict_asymmetric"] > before))
    kw = {("k_block" if form.startswith("k_") else "D_block"): lim}
    extra, _ = gen_limits(rng, cluster(full_raw, 1e-8), False, True)
    for name in ("D_total", "tol", "tol_block"):
        if name in extra and rng.random() < 0.6:
            kw[name] = extra[name]
    w["kwargs"] = kw_desc(kw)
    # which blocks go through ARPACK (backend_np.svds_scipy): k < min(D) - 1 and D0 * D1 > 5000
    arpack = False
    for t, (r, c) in sec.sec.items():
        kk = min(lim[t] if isinstance(lim, dict) else lim, len(r), len(c)) if t in full_raw else 0
        if 0 < kk < min(len(r), len(c)) - 1 and len(r) * len(c) > 5000:
            arpack = True
    ctx.count("lowrank_arpack_cases", int(arpack))
    rel = 1e-8 if arpack else REL_RECOMPUTED
    full = cluster(full_raw, rel)
    args = dict(policy="lowrank", Uaxis=Uaxis, Vaxis=Vaxis, **base, **kw)
    U, S, V = yastn.svd_with_truncation(operand.y, **args) if rng.random() < 0.7 else operand.y.svd_with_truncation(**args)
    E.count_call("svd_with_truncation", operand, ((U, Uaxis), (V, Vaxis)))
    ctx.count("svd_with_truncation_lowrank")
    ctx.count("lowrank:" + form)
    ctx.count(f"lowrank:sU={sU},nU={nU}")
    obs = trunc_observe(ctx, "svd_with_truncation:lowrank", E, ht, operand, left, right, U, S, V, sU, Un, Vn, Uaxis, Vaxis, w,
                        iso_tol=1e-9 if arpack else None)
    if obs is None:
        return
    Um, s, Vm, keptb = obs
    kept, kept_raw = {}, {}
    for t, v in keptb.items():
        mk, kept_raw[t] = match_kept(full_raw[t], full[t], v, anorm, rel) if t in full else (None, None)
        if mk is None:
            ctx.violation("svd_with_truncation:lowrank:kept-not-in-spectrum", f"sector {t}: kept values {v.tolist()[:8]} are not values of the full "
                          f"spectrum {np.asarray(full_raw.get(t, [])).tolist()[:8]}", w)
            return
        kept[t] = mk
    spec_kw = {k_: v for k_, v in kw.items() if k_ != "k_block"}
    if "k_block" in kw:
        spec_kw["D_block"] = kw["k_block"]          # at most k_block values per block are computed, hence kept
    judge_mask(ctx, "svd_with_truncation:lowrank", full, kept, spec_kw, w, rel)
    ctx.count("lowrank_judged")
    disc = collections.Counter(cat(full_raw.values()).tolist())
    disc.subtract(collections.Counter(cat(kept_raw.values()).tolist()))
    dn = F.norm_of(disc.items())
    err = F.fro((Um * s[None, :]) @ Vm - sec.M)
    ctx.count("error_identity_checked")
    name = "svd_with_truncation:lowrank:error-identity" + (":arpack" if arpack else "")
    if not ctx.margin(name, abs(err - dn), (1e-9 if arpack else 1e-12) * max(anorm, 1e-300)):
        ctx.violation("svd_with_truncation:lowrank:error-identity", f"||a - U S V|| = {err:.6e} but the discarded singular values have norm {dn:.6e} "
                      f"(||a|| = {anorm:.3e})", w)
    ctx.case(("svd_lowrank", operand.sig(), left, right, sU, nU, Uaxis, Vaxis, form, big, kw_struct(kw)), True,
             {"workload": "svd_with_truncation(policy=lowrank)", "sym": sym, "kwargs": kw_desc(kw), "sU": sU, "nU": nU,
              "full": {str(t): v.tolist()[:10] for t, v in full_raw.items()}, "kept": {str(t): v.tolist()[:10] for t, v in kept_raw.items()}} if idx % 40 == 4 else None)


def transform(vals, which):
    vals = np.asarray(vals, dtype=float)
    return {"LM": np.abs(vals), "SM": -np.abs(vals), "LR": vals, "SR": -vals}[which]


def eigh_trunc_case(ctx, idx, sym):
    import yastn
    from checks import c04
    E = c04.Env(ctx, idx, sym)
    rng = E.rng
    h, k = c04.square_tensor(E, "herm", scale=False)
    hp, posL, posR = c04.hide_pairs(E, h, k)
    kind = rng.choice(("herm", "psd", "designed", "designed-psd"))
    state = rng.getstate()
    operand, left, right = c04.paired_operand(E, hp, posL, posR, count=False)
    flatL, flatR = F.flat_axes(operand, left), F.flat_axes(operand, right)
    csc = F.draw_scale(rng)
    if (kind != "herm" or csc != 1.0) and hp.blocks:
        if kind != "herm":
            hp = F.square_psd(hp, flatL, flatR) if kind == "psd" else F.redesign_eigh(rng, hp, flatL, flatR, kind == "designed-psd")
        if csc != 1.0:
            hp = F.scaled(hp, csc)
            ctx.count("scaled_operands")
        r2 = random.Random()
        r2.setstate(state)
        E.rng = r2
        operand, left, right = c04.paired_operand(E, hp, posL, posR, count=False)
        E.rng = rng
        if kind.startswith("designed"):
            ctx.count("decomp_designed_spectrum")
    psd = kind in ("psd", "designed-psd")
    ctx.count("decomp_fused", int(bool(operand.info["fusion"])))
    ctx.count("decomp_lazy", int(operand.info["state"] != "plain" or operand.info["post"] != "none"))
    axes = F.axes_arg(rng, left, right)
    sU, Uaxis = rng.choice((1, -1)), F.rand_axis(rng, len(left) + 1)
    which = rng.choice(("LM", "LM", "LR", "LR", "SR", "SM"))
    n0 = G.zero(sym)
    sec = F.Sectors(hp, flatL, flatR, sU, n0)
    anorm = F.fro(sec.M)
    Sf, _ = yastn.eigh(operand.y, axes=axes, sU=sU, which=which)
    fullS = F.diag_blocks(Sf)
    w = {"sym": sym, "tensor": hp.desc(values=hp.size() <= 120), "operand": operand.info, "axes": [list(left), list(right)], "sU": sU,
         "Uaxis": Uaxis, "which": which, "kind": kind, "full_spectrum": {str(t): v.tolist() for t, v in fullS.items()}}
    if not c04.compare_spectra(ctx, "eigh", Sf, sec, "eigh", which, anorm, w):
        return
    full = cluster({t: transform(v, which) for t, v in fullS.items()})
    allv = cat(full.values())
    nonneg = bool(np.all(allv >= 0))
    # parameter domain per transformed spectrum (see module docstring)
    # eigh_with_truncation documents D_block / tol_block as plain numbers (no per-sector dictionaries): scalars only
    if nonneg:
        kw = limits_for_decomp(rng, full, allow_dict=False)
        dom = "nonneg"
    else:
        kw, _ = gen_limits(rng, full, True, True)
        kw = {k_: v for k_, v in kw.items() if not isinstance(v, dict)}
        if which in ("LR", "SR") and rng.random() < 0.6:
            kw["tol"], kw["tol_block"] = 0, 0                # documented: "all negative ones are discarded"
            if rng.random() < 0.5:
                kw["tol"] = rng.choice((0.5, 0.25, 1e-3))    # relative to the largest survivor, which is positive
        dom = "signed"
    ctx.count("eigh_trunc:" + which + ":" + dom)
    w["kwargs"] = kw_desc(kw)
    if rng.random() < 0.06:
        # eigh_with_truncation(a, axes): everything else omitted.  The signature default is which='LR', the docstring marks 'SR' as the
        # default, and with tol=0 the two discard opposite halves of the spectrum: WHICH values are kept is not judged, only that the
        # call works, the factors are well formed and the error equals the norm of what was discarded
        S, U = yastn.eigh_with_truncation(operand.y, axes)
        ctx.count("pure_defaults:eigh_with_truncation")
        fullS = F.diag_blocks(yastn.eigh(operand.y, axes)[0])          # same defaults (sU=1): same sector labels
        full = cluster(fullS)
        sec = F.Sectors(hp, flatL, flatR, 1, n0)
        obs = trunc_observe(ctx, "eigh_with_truncation", E, hp, operand, left, right, U, S, None, 1, n0, n0, -1, 0, w)
        if obs is not None:
            Um, s_, _, keptb = obs
            disc = collections.Counter(cat(fullS.values()).tolist())
            ok_ = True
            for t, v in keptb.items():
                mk, raw = match_kept(fullS[t], full[t], np.real(v), anorm) if t in fullS else (None, None)
                if mk is None:
                    ctx.violation("eigh_with_truncation:kept-not-in-spectrum", f"defaults: sector {t}: kept {np.asarray(v).tolist()[:8]}", w)
                    ok_ = False
                    break
                disc.subtract(collections.Counter(raw.tolist()))
            if ok_:
                err = F.fro((Um * s_[None, :]) @ Um.conj().T - sec.M)
                if not ctx.margin("eigh_with_truncation:error-identity", abs(err - F.norm_of(disc.items())), 1e-11 * max(anorm, 1e-300)):
                    ctx.violation("eigh_with_truncation:error-identity", f"defaults: ||a - U S U^+|| = {err:.6e}, discarded norm {F.norm_of(disc.items()):.6e}", w)
        ctx.case(("eigh_trunc-defaults", operand.sig()), False)
        return
    args = dict(axes=axes, sU=sU, Uaxis=Uaxis, which=which, **kw)
    S, U = yastn.eigh_with_truncation(operand.y, **args) if rng.random() < 0.7 else operand.y.eigh_with_truncation(**args)
    E.count_call("eigh_with_truncation", operand, ((U, Uaxis),))
    ctx.count("eigh_with_truncation")
    if not thresholds_unambiguous(full, kw.get("tol_block", 0), kw.get("tol", 0)):
        ctx.count("unjudged:relative-tolerance-on-signed-values")
        return
    obs = trunc_observe(ctx, "eigh_with_truncation", E, hp, operand, left, right, U, S, None, sU, n0, n0, Uaxis, 0, w)
    if obs is None:
        return
    Um, s, _, keptb = obs
    kept, keptS = {}, {}
    for t, v in keptb.items():
        mk, raw = match_kept(fullS[t], full[t], np.real(v), anorm) if t in fullS else (None, None)
        if mk is None:
            ctx.violation("eigh_with_truncation:kept-not-in-spectrum", f"sector {t}: kept {np.asarray(v).tolist()[:8]} not in the full spectrum "
                          f"{np.asarray(fullS.get(t, [])).tolist()[:8]}", w)
            return
        if not c04.order_ok(v, which, anorm):
            ctx.violation("eigh_with_truncation:S-order:" + which, f"sector {t}: kept eigenvalues not ordered as which={which}: {np.asarray(v).tolist()[:8]}", w)
        keptS[t] = raw
        kept[t] = mk
    judge_mask(ctx, "eigh_with_truncation", full, kept, kw, w, REL_RECOMPUTED)
    ctx.count("decompositions_judged")
    disc = collections.Counter(cat(fullS.values()).tolist())
    disc.subtract(collections.Counter(cat(keptS.values()).tolist()))
    dn = F.norm_of(disc.items())
    err = F.fro((Um * s[None, :]) @ Um.conj().T - sec.M)
    ctx.count("error_identity_checked")
    ctx.count("error_identity_nonzero", int(dn > 0))
    # scipy's eigh (MRRR) reconstructs clustered spectra to ~5e-14 ||a||: 1e-11 keeps two orders of magnitude of head-room
    if not ctx.margin("eigh_with_truncation:error-identity", abs(err - dn), 1e-11 * max(anorm, 1e-300)):
        ctx.violation("eigh_with_truncation:error-identity", f"||a - U S U^+|| = {err:.6e} but the discarded eigenvalues have norm {dn:.6e} "
                      f"(||a|| = {anorm:.3e})", w)
    ctx.case(("eigh_trunc", operand.sig(), left, right, sU, Uaxis, which, kind, kw_struct(kw)), sum(len(v) for v in full.values()) >= 2,
             {"workload": "eigh_with_truncation", "sym": sym, "which": which, "kwargs": kw_desc(kw),
              "full": {str(t): v.tolist() for t, v in fullS.items()}, "kept": {str(t): v.tolist() for t, v in keptS.items()}} if idx % 40 == 3 else None)


WORK = [mask_case, mask_case, mask_case, mask_case, multiplet_case, svd_trunc_case, eigh_trunc_case, mask_case, svd_trunc_case, multiplet_case,
        svd_lowrank_case]


def run_case(ctx, idx):
    sym = G.ALL_SYMS[idx % len(G.ALL_SYMS)]
    with np.errstate(invalid="ignore"):     # the library multiplies tol = +-inf by max = 0 (RuntimeWarning only, the comparison is then False)
        WORK[(idx // len(G.ALL_SYMS)) % len(WORK)](ctx, idx, sym)


# ------------------------------------------------------------------ canaries

def canaries(ctx):
    sub = type(ctx)(ctx.prop, ctx.tier, ctx.seed)
    sub.idx = "canary"
    blocks = {(0,): np.array([1.0, 0.5, 0.25]), (1,): np.array([0.75, 0.5, 0.125, 0.0])}
    kw = {"D_block": 2, "D_total": 3}

    def outcome(kept, kw=kw):
        sub.violations.clear()
        judge_mask(sub, "canary", blocks, kept, kw, {})
        return sub.violations[0]["key"] if sub.violations else None
    ctx.canary("clean-accepted", outcome({(0,): [1.0, 0.5], (1,): [0.75]}) is None)
    ctx.canary("tie-other-member-accepted", outcome({(0,): [1.0], (1,): [0.75, 0.5]}) is None)
    ctx.canary("kept-fewer", outcome({(0,): [1.0], (1,): [0.75]}) == "canary:kept-fewer-than-allowed")
    ctx.canary("D_total-exceeded", outcome({(0,): [1.0, 0.5], (1,): [0.75, 0.5]}) == "canary:D_total-exceeded")
    ctx.canary("D_block-exceeded", outcome({(0,): [1.0, 0.5, 0.25], (1,): []}) == "canary:D_block-exceeded")
    ctx.canary("not-largest", outcome({(0,): [1.0, 0.5], (1,): [0.5]}) == "canary:not-largest-kept")
    ctx.canary("block-not-largest", outcome({(0,): [1.0, 0.25], (1,): [0.75]}) == "canary:block-not-largest")
    ctx.canary("tol-not-respected", outcome({(0,): [1.0, 0.5, 0.25], (1,): [0.75, 0.5]}, {"tol": 0.3}) == "canary:tol-not-respected")
    ctx.canary("exact-threshold-either", outcome({(0,): [1.0], (1,): [0.75]}, {"tol": 0.5}) is None
               and outcome({(0,): [1.0, 0.5], (1,): [0.75, 0.5]}, {"tol": 0.5}) is None
               and outcome({(0,): [1.0, 0.5], (1,): [0.75]}, {"tol": 0.5}) is not None)
    ctx.canary("zeros-free", outcome({(0,): [1.0, 0.5, 0.25], (1,): [0.75, 0.5, 0.125]}, {}) is None
               and outcome({(0,): [1.0, 0.5, 0.25], (1,): [0.75, 0.5, 0.125, 0.0]}, {}) is None)
    neg = {(0,): np.array([-1.0, -2.0]), (1,): np.array([-0.5, -3.0, -4.0])}
    sub.violations.clear()
    judge_mask(sub, "canary", neg, {(0,): [], (1,): []}, {"tol": -INF, "tol_block": -INF, "D_block": 1, "D_total": 2}, {})
    ctx.canary("negative-values-key", bool(sub.violations) and sub.violations[0]["key"] == "mask:global-stage-negative-values")
    sub.violations.clear()
    judge_mask(sub, "canary", neg, {(0,): [-1.0], (1,): [-0.5]}, {"tol": -INF, "tol_block": -INF, "D_block": 1, "D_total": 2}, {})
    ctx.canary("negative-values-correct-accepted", not sub.violations)
    sub.violations.clear()
    mb = {(0,): np.array([1.0, 1.0, 0.5, 0.5, 0.1])}
    ctx.canary("multiplets-flag", judge_multiplets_flag(sub, mb, {(0,): [1.0, 1.0, 0.5, 0.5]}, {"D_total": 3}, {})
               and not judge_multiplets_flag(sub, mb, {(0,): [1.0, 1.0, 0.5]}, {"D_total": 3}, {}))
    sub.violations.clear()
    ctx.canary("multiplets-fn", judge_mask_multiplets(sub, mb, {(0,): [1.0, 1.0]}, {"D_total": 3}, {}) is True
               and judge_mask_multiplets(sub, mb, {(0,): [1.0, 1.0, 0.5]}, {"D_total": 3}, {}) is False)
    ctx.canary("match-kept", match_kept([1.0, 0.5, 0.5], [1.0, 0.5, 0.5], [0.5, 0.5], 1.0)[0] is not None
               and match_kept([1.0, 0.5], [1.0, 0.5], [0.5, 0.5], 1.0)[0] is None)
    cl = cluster({(0,): [1.0, 0.5, 0.5 - 1e-16, 1e-17], (1,): [0.5 + 1e-16, 0.25]})
    ctx.canary("cluster", cl[(0,)][1] == cl[(0,)][2] == cl[(1,)][0] and cl[(0,)][3] == 0.0 and cl[(1,)][1] == 0.25)


def finalize(cov, merged):
    c = merged["counters"]
    cov["unjudged"] = {k: int(v) for k, v in c.items() if k.startswith("unjudged:")}
    cov["eigh_trunc_domains"] = {k: int(v) for k, v in c.items() if k.startswith("eigh_trunc:")}
