"""C06  MPS/MPO algebra agrees with the states and operators it represents.

Every case draws a local space (all 19 of vmon.mpsref.SPACES), a chain length and an *expression tree* of depth <= 3
over the MPS/MPO algebra.  The tree is evaluated twice, node by node: with yastn objects and with NumPy on dense
vectors / matrices.  After every node the yastn object is contracted (to_tensor -> to_numpy over the full physical
legs) and compared with the NumPy value; at leaves and at the root the observation itself is cross-validated against a
harness contraction of the site tensors and against to_matrix().  Leaves are harness-built chains (dense truth known
from the blocks handed to set_block), random_mps/random_mpo, product_mps/product_mpo and mps_from_tensor.  Roots are
then measured (measure_overlap, measure_mpo with single / summed / periodic / charged / on_bra operators, Env sums),
and products are re-computed by zipper and compression_ without (binding) truncation.
"""
from __future__ import annotations

import numpy as np

from vmon import dense as D
from vmon import groups as G
from vmon import mpsref as R
from vmon.harness import CaseSkip

PROP = "C06"
RULE = ("case = (local space out of 19 class/symmetry pairs, N in 1..6 (7 for d=2), family, expression tree of depth <= 3 over "
        "+ - add(amplitudes) c* *c /c neg np-scalar* @ conj T H reverse_sites copy/clone/shallow_copy with leaves from "
        "harness chains (random sector sets, dims 1-3, every admissible total charge, block masks), random_mps/random_mpo, "
        "product_mps/product_mpo, mps_from_tensor(canonize first/last/balance), real/complex, non-unit factor); "
        "distinct = hash of (space, N, tree shape with operators and leaf kinds/charges/bond sectors, measurement kind); "
        "non-trivial = at least one node was compared element-wise with NumPy or a measured number with a dense inner product")
ASSUMPTIONS = ["NumPy matmul/vdot/kron/transposes on dense arrays of <= 4096 rows are the truth",
               "the dense truth of harness-built leaves is contracted from the same blocks passed to set_block",
               "tolerances are CT*eps*scale with scale = max(dense norms of the operands, |factor| * prod_n |A_n|_F of the object): "
               "rounding errors follow the norms of the site tensors, which exceed the norm of an ill-conditioned (non-canonical) chain",
               "to_numpy(legs=...) is the observation function (validated by C01); to_tensor() is cross-validated in-run "
               "against an independent NumPy contraction of the site tensors and against to_matrix()",
               "random_mps/random_mpo leaves have no independent truth: their observed dense image is taken as operand value",
               "compression_ is judged after max_sweeps<=6 sweeps from a start whose virtual spaces can hold the target "
               "(1site) or with non-binding opts_svd (2site); tolerance 1e-10 relative (iterative method; observed <= 5e-15)"]

CT = 1.0e3            # arithmetic tolerance: CT * eps * scale   (scale = product / sum of operand norms)
SCALARS = (2.0, -0.5, 1.5 - 0.5j, 3, 0.25j, -1, -2.5, 0.75 + 1.25j)
NONBINDING = ({}, {"D_total": 100000}, {"tol": 1e-15}, {"tol": 1e-15, "D_total": 5000}, {"D_block": 10000},
              {"tol_block": 1e-15}, {"D_total": 4096, "tol": 0, "D_block": 4096})


def plan(tier):
    if tier == "thorough":
        return {"cases": 12000, "shards": 16, "budget_s": 800}
    return {"cases": 1300, "shards": 8, "budget_s": 110}


def floors(tier):
    """About a quarter to a third of the smallest count seen over seeds 0..5 on the unchanged tree (thorough: x6 for 8x the cases)."""
    k = 6 if tier == "thorough" else 1
    f = {"evaluations": 500, "nodes_compared": 3000, "numbers_compared": 400, "obs_sites_crosschecks": 1500,
         "obs_matrix_crosschecks": 1500, "operands": 1200, "factor_nonunit_operands": 900, "N=1": 30, "N=2": 80, "N=5": 60, "N=6": 60,
         "measure:overlap": 100, "measure:mpo": 70, "measure:mpo-sum": 30, "measure:mpo-pbc": 20, "measure:env-sum": 20,
         "measure:on_bra": 8, "measure:charged-op:nonzero": 20, "measure:charged-op-nonvanishing": 20,
         "measure:op-charge-on-flipped-boundary-leg:nonvanishing": 5, "measure:op-charge-on-flipped-last-leg:nonvanishing": 1,
         "measure:op-charge-on-flipped-first-leg:nonvanishing": 1, "leaf:harness:charge-on-last-leg:nonzero": 40, "leaf:site-amplitude-scale": 100,
         "leaf:tiny-site-amplitude": 50, "zipper": 60, "zipper:pbc": 15, "compression:1site": 12,
         "compression:2site": 12, "leaf:harness": 700, "leaf:random": 200, "leaf:product": 200, "leaf:from_tensor": 120,
         "from_tensor:balance": 35, "from_tensor:first": 35, "from_tensor:last": 35, "nonzero_charge_leaves": 400,
         "complex_leaves": 600, "addn_mixed_sign_or_phase": 18, "matmul_mode_meta": 20, "central:reverse": 4,
         "central_block_comparisons": 70, "central:add-multiply-rejected": 35, "central:norm-with-central-block": 30,
         "addn:permuted-order": 20, "addn:amplitudes-as-tuple": 10, "addn:amplitudes-as-list": 12, "addn:zero-amplitude": 3,
         "addself:+": 15, "addself:add3": 6, "addself:add-amps": 5, "addself:sub": 3, "leaf:identity": 30, "twin_checks": 60,
         "measure:mpo-sum:ops-as-tuple": 15, "measure:mpo-sum:ops-as-list": 15, "defaults:zipper": 7, "defaults:compression_": 2,
         "defaults:random_mps/random_mpo": 25, "defaults:mps_from_tensor": 6, "defaults:mpo_from_tensor": 3,
         "opts:D_block-dict-shuffled": 6, "scalar_one": 3}
    for op in ("add", "sub", "addn", "mul", "rmul", "div", "neg", "npmul", "matmul:mpo@mps", "matmul:mpo@mpo", "conj", "T",
               "H", "reverse", "copy"):
        f["op:" + op] = 30
    return {name: v * k for name, v in f.items()}


# ------------------------------------------------------------------ type signatures of tree nodes

def ts_leaf(kind, q, at="first"):
    """Leaf type: kind, total charge and the boundary leg that carries it (default: the first one)."""
    return ("L", kind, tuple(q)) if at == "first" else ("L", kind, tuple(q), at)


def ts_kind(ts):
    if ts[0] == "L":
        return ts[1]
    if ts[0] == "U":
        return ts_kind(ts[2])
    return ts_kind(ts[2])            # ("M", a, b): kind of b


def ts_flags(ts, flag):
    """Toggle a flag ('c','t','r') on a type signature; keeps a canonical form ("U", flags, base)."""
    if ts[0] == "U":
        flags, base = set(ts[1]), ts[2]
    else:
        flags, base = set(), ts
    if flag == "t" and ts_kind(base) == "mps":
        return ts
    flags ^= {flag}
    return ("U", tuple(sorted(flags)), base) if flags else base


def ts_ksig(ts):
    if ts[0] == "L":
        return 1
    if ts[0] == "M":
        return ts_ksig(ts[1])
    s = ts_ksig(ts[2])
    for f in ts[1]:
        if f in ("c", "t"):
            s = -s
    return s


def ts_rev(ts):
    if ts[0] == "L":
        return False
    if ts[0] == "M":
        return ts_rev(ts[1])
    return ts_rev(ts[2]) ^ ("r" in ts[1])


class Node:
    __slots__ = ("op", "kids", "par", "ts")

    def __init__(self, op, kids=(), par=None, ts=None):
        self.op, self.kids, self.par, self.ts = op, list(kids), par or {}, ts

    def shape(self):
        if self.op == "leaf":
            p = self.par
            return ("leaf", p["src"], p["kind"], tuple(p["q"]), p["dtype"], p.get("factor"), p.get("canonize"), p.get("at"), p.get("site_scale"))
        par = {k: v for k, v in self.par.items() if k in ("how", "n")}
        return (self.op, tuple(sorted(par.items())), tuple(k.shape() for k in self.kids))

    def desc(self):
        if self.op == "leaf":
            return {"leaf": {k: (list(v) if isinstance(v, tuple) else v) for k, v in self.par.items() if k != "bonds"}}
        return {"op": self.op, "par": {k: repr(v) for k, v in self.par.items()}, "kids": [k.desc() for k in self.kids]}

    def depth(self):
        return 0 if not self.kids else 1 + max(k.depth() for k in self.kids)


def nested_history(y):
    """Some virtual leg has a hard-fusion history with a direct sum inside a product, e.g. p(s(oo)o) from (a + b) @ c."""
    for n in range(y.N):
        for ax in (0, 2):
            hf = getattr(y[n].get_legs(axes=ax), "hf", None)
            if hf is not None and hf.op[:1] == "p" and "s" in hf.op:
                return True
    return False


class Stop(Exception):
    """first violation inside a case: the remaining nodes depend on a wrong object and are not judged."""


# ------------------------------------------------------------------ case environment

class Env:
    def __init__(self, ctx, idx):
        self.ctx = ctx
        self.rng, self.nprng = ctx.rng(idx), ctx.nprng(idx)
        rng = self.rng
        name, sym = R.SPACES[idx % len(R.SPACES)]
        self.loc = loc = R.local(name, sym)
        self.tier = ctx.tier
        cap_mps = 4096
        cap_mpo = 512 if ctx.tier == "thorough" else 256
        nmax = min(R.max_sites(loc, "mps", cap_mps), 7 if loc.d == 2 else 6)
        self.nmax_mpo = min(R.max_sites(loc, "mpo", cap_mpo), 6)
        # block count of a contracted MPO grows like (#sectors)^(2N): keep to_tensor() of operators affordable
        cap_blocks = 8000 if ctx.tier == "thorough" else 5000
        while self.nmax_mpo > 1 and len(loc.charges) ** (2 * self.nmax_mpo) > cap_blocks:
            self.nmax_mpo -= 1
        r = rng.random()
        if r < 0.05:
            self.N = 1
        elif r < 0.12:
            self.N = 2
        elif r < 0.62:
            self.N = max(rng.randint(1, self.nmax_mpo), rng.randint(1, self.nmax_mpo))
        else:
            self.N = max(rng.randint(2, nmax), rng.randint(2, nmax))
        self.allow_mpo = self.N <= self.nmax_mpo
        self.dmax = 3 if self.N <= 4 else 2
        self.leafno = 0
        self.sigparts = []
        self.stopped = False
        self.zero_ok = True
        self.at_mode = None          # None: harness leaves carry the charge on the last leg now and then; else forced
        ctx.count(f"N={self.N}")
        ctx.count("space:" + loc.tag())

    # ---- leaves ---------------------------------------------------------
    def draw_q(self, kind):
        adm = R.admissible_charges(self.loc, self.N, kind)
        zero = G.zero(self.loc.sym)
        if kind == "mpo" and self.rng.random() < 0.75:
            return zero
        return self.rng.choice(adm)

    def leaf(self, kind, q=None, src=None, at=None):
        rng = self.rng
        q = self.draw_q(kind) if q is None else tuple(q)
        if src is None:
            src = rng.choice(("harness", "harness", "harness", "random", "product", "from_tensor"))
        if src in ("harness", "product") and kind == "mpo" and q == G.zero(self.loc.sym) and at in (None, "first") \
                and self.at_mode in (None, "first") and rng.random() < 0.08:
            src, at = "identity", "first"          # the identity operator as product_mpo(I, N)
        if at is None:
            at = self.at_mode or ("last" if (src == "harness" and rng.random() < 0.12) else "first")
        if at == "last":
            src = "harness"          # only harness chains can put the total charge on the last virtual leg
        if src == "random" and kind == "mpo" and q != G.zero(self.loc.sym):
            src = "harness"
        nlegs = self.N * (1 if kind == "mps" else 2)
        if src == "from_tensor" and (self.loc.d ** nlegs > 4096 or len(self.loc.charges) ** nlegs > 512
                                     or (self.loc.d ** (nlegs // self.N)) ** (self.N // 2) > 16):
            src = "harness"      # set_block is quadratic in the number of blocks; keep full tensors below ~256 blocks
        par = {"src": src, "kind": kind, "q": q, "dtype": rng.choice(("float64", "complex128")),
               "factor": rng.choice((None, None, "pos", "canon-first", "canon-last")), "seed": rng.getrandbits(40), "at": at,
               "site_scale": rng.choice((1e-20, 1e-15, 1e-15, 1e-8, 1e8)) if rng.random() < 0.08 else None}
        if src == "from_tensor":
            par["canonize"] = rng.choice(("first", "last", "balance"))
            par["opts"] = rng.choice((None, None, {"tol": 1e-13}, {"tol": 1e-14, "D_total": 4096}))
        return Node("leaf", par=par, ts=ts_leaf(kind, q, at))

    # ---- trees ------------------------------------------------------------
    def est_bond(self, node):
        """Rough size of the largest bond of the object a node evaluates to (sums add, products multiply)."""
        if node.op == "leaf":
            src, kind = node.par["src"], node.par["kind"]
            if src in ("product", "identity"):
                return 1
            if src == "random":
                return 8
            if src == "from_tensor":
                return (self.loc.d ** (1 if kind == "mps" else 2)) ** (self.N // 2)
            return self.dmax + 1 if self.loc.sym == "dense" else 4 * self.dmax
        ks = [self.est_bond(k) for k in node.kids]
        if node.op in ("add", "sub", "addn"):
            return sum(ks)
        if node.op == "addself":
            return ks[0] * (3 if node.par["how"] in ("add3", "add-amps") else 2)
        if node.op == "matmul":
            return ks[0] * ks[1]
        return ks[0]

    def tree(self, kind, depth, normal_only=False, q=None, cap=160):
        """Random expression tree; redrawn (shallower) while the estimated bond dimension exceeds ``cap``."""
        for attempt in range(6):
            t = self._tree(kind, max(0, depth - attempt // 2), normal_only, q)
            if self.est_bond(t) <= cap:
                return t
        return self.leaf(kind, q, src="harness")

    def _tree(self, kind, depth, normal_only=False, q=None):
        rng = self.rng
        if depth <= 0 or rng.random() < 0.12:
            return self.leaf(kind, q)
        ops = ["add", "sub", "addn", "mul", "rmul", "div", "neg", "npmul", "copy", "addself"]
        if self.allow_mpo:
            ops += ["matmul", "matmul", "matmul"]
        if not normal_only:
            ops += ["conj", "reverse", "H", "T"] if kind == "mpo" else ["conj", "reverse", "H", "T"]
        else:
            ops += ["twice"]
        op = rng.choice(ops)
        if op in ("add", "sub", "addn"):
            a = self._tree(kind, depth - 1, normal_only, q)
            n = 2 if op != "addn" else rng.choice((1, 2, 2, 3, 4))
            kids = [a] + [self.partner(a.ts, depth - 1) for _ in range(n - 1)]
            par = {}
            if op == "addn":
                par["amps"] = None if rng.random() < 0.25 else [rng.choice(SCALARS + (1, 1.0)) for _ in kids]
                if par["amps"] is not None:
                    # falsy amplitudes: the term must vanish
                    par["amps"] = [rng.choice((0, -0.0, 0j)) if rng.random() < 0.07 else a for a in par["amps"]]
                # user-controlled container: any order of the (state, amplitude) pairs, list or tuple of amplitudes
                order = list(range(len(kids)))
                rng.shuffle(order)
                par["order"] = order
                par["container"] = rng.choice(("list", "tuple"))
            return Node(op, kids, par, a.ts)
        if op == "addself":
            a = self._tree(kind, depth - 1, normal_only, q)
            how = rng.choice(("+", "+", "add3", "add-amps", "sub") if self.zero_ok else ("+", "+", "add3", "add-amps"))
            par = {"how": how}
            if how == "add-amps":
                par["amps"] = tuple(rng.choice(SCALARS) for _ in range(rng.choice((2, 3))))
            return Node(op, [a], par, a.ts)
        if op in ("mul", "rmul", "div", "neg", "npmul"):
            a = self._tree(kind, depth - 1, normal_only, q)
            par = {}
            if op in ("mul", "rmul", "div"):
                par["c"] = rng.choice(SCALARS) if rng.random() > 0.08 else rng.choice((1, 1.0, -1.0, 1 + 0j))
            elif op == "npmul":
                par["c"] = rng.choice((np.float64(1.75), np.int64(4), np.float64(-0.5), np.int64(-3)))
            if op in ("mul", "rmul") and self.zero_ok and rng.random() < 0.04:
                par["c"] = 0
            return Node(op, [a], par, a.ts)
        if op == "copy":
            a = self._tree(kind, depth - 1, normal_only, q)
            return Node(op, [a], {"how": rng.choice(("copy", "clone", "shallow_copy"))}, a.ts)
        if op == "twice":
            a = self._tree(kind, depth - 1, normal_only, q)
            f = rng.choice(("conj", "reverse", "H", "T"))
            mid = self.unary(f, a)
            return self.unary(f, mid)
        if op in ("conj", "reverse", "H", "T"):
            a = self._tree(kind, depth - 1, normal_only, q)
            return self.unary(op, a)
        # matmul (a requested total charge is put on the right factor; the operator is then neutral)
        a = self._tree("mpo", depth - 1, normal_only, None if q is None else G.zero(self.loc.sym))
        b = self._tree(kind, depth - 1, normal_only, q)
        return self.matmul(a, b)

    def unary(self, f, a):
        ts = a.ts
        if f == "H":
            ts = ts_flags(ts_flags(ts, "c"), "t")
        else:
            ts = ts_flags(ts, {"conj": "c", "reverse": "r", "T": "t"}[f])
        how = self.rng.choice(("prop", "method")) if f in ("T", "H") else "method"
        return Node(f, [a], {"how": how}, ts)

    def coerce(self, x, ksig, rev):
        if ts_ksig(x.ts) != ksig:
            x = self.unary("conj" if (ts_kind(x.ts) == "mps" or self.rng.random() < 0.5) else "T", x)
        if ts_rev(x.ts) != rev:
            x = self.unary("reverse", x)
        return x

    def matmul(self, a, b):
        if self.rng.random() < 0.5:
            b = self.coerce(b, ts_ksig(a.ts), ts_rev(a.ts))
        else:
            a = self.coerce(a, ts_ksig(b.ts), ts_rev(b.ts))
        how = self.rng.choice(("@", "@", "multiply", "multiply-mode"))
        return Node("matmul", [a, b], {"how": how}, ("M", a.ts, b.ts))

    def partner(self, ts, depth=0):
        """A fresh tree with the same structural type (same signatures, same charges on the boundary legs)."""
        rng = self.rng
        if ts[0] == "L":
            x = self.leaf(ts[1], ts[2], at=ts[3] if len(ts) > 3 else "first")
        elif ts[0] == "M":
            a = self.partner(ts[1])
            b = self.partner(ts[2])
            x = Node("matmul", [a, b], {"how": "@"}, ts)
        else:
            x = self.partner(ts[2])
            fl = list(ts[1])
            rng.shuffle(fl)
            if "c" in fl and "t" in fl and rng.random() < 0.5:
                fl = [f for f in fl if f not in ("c", "t")] + ["h"]
            for f in fl:
                x = self.unary({"c": "conj", "t": "T", "r": "reverse", "h": "H"}[f], x)
            assert x.ts == ts, (x.ts, ts)
        if depth > 0 and rng.random() < 0.5:
            op = rng.choice(("mul", "rmul", "neg", "copy", "div"))
            par = {"c": rng.choice(SCALARS)} if op in ("mul", "rmul", "div") else ({"how": "copy"} if op == "copy" else {})
            x = Node(op, [x], par, x.ts)
        return x

    # ---- evaluation ---------------------------------------------------------
    def tol(self, scale):
        return CT * R.EPS * max(scale, 1e-300)

    def compare(self, what, key, y, exp, scale, full=False, ct=None):
        ctx = self.ctx
        obs = R.observe(ctx, y, self.loc, what, scale=scale, full=full)
        ctx.count("nodes_compared")
        exp = np.asarray(exp)
        if obs.shape != exp.shape:
            ctx.violation("shape:" + key, f"{what}: dense shape {obs.shape}, expected {exp.shape}", self.witness())
            raise Stop
        err = R.maxabs(obs - exp)
        allowed = self.tol(scale) if ct is None else ct * R.EPS * max(scale, 1e-300)
        if not ctx.margin("value:" + key.split(":")[0], err, allowed):
            ctx.violation("value:" + key, f"{what}: dense image differs from NumPy by {err:.3e} (allowed {allowed:.3e}, "
                          f"scale {scale:.3e}, |expected| {R.nrm(exp):.3e})",
                          {"case": self.witness(), "observed": obs, "expected": exp})
            raise Stop
        return obs

    def witness(self):
        return {"space": self.loc.tag(), "N": self.N, "parts": self.sigparts[-3:]}

    def eval(self, node, root=False):
        """-> (yastn object, expected dense, scale)"""
        ctx, loc, N = self.ctx, self.loc, self.N
        if node.op == "leaf":
            return self.eval_leaf(node)
        kids = [self.eval(k) for k in node.kids]
        for y, _, _ in kids:
            ctx.count("operands")
            if y.factor != 1:
                ctx.count("factor_nonunit_operands")
        op, par = node.op, node.par
        import yastn.tn.mps as mps
        meta = None
        if op == "add":
            y = kids[0][0] + kids[1][0]
            d, sc = kids[0][1] + kids[1][1], kids[0][2] + kids[1][2]
        elif op == "sub":
            y = kids[0][0] - kids[1][0]
            d, sc = kids[0][1] - kids[1][1], kids[0][2] + kids[1][2]
        elif op == "addn":
            amps, order = par["amps"], par["order"]
            ys = [kids[i][0] for i in order]
            if amps is None:
                y = mps.add(*ys)
            else:
                amo = [amps[i] for i in order]
                y = mps.add(*ys, amplitudes=tuple(amo) if par["container"] == "tuple" else amo)
                ctx.count("addn:amplitudes-as-" + par["container"])
                if any(a == 0 for a in amps):
                    ctx.count("addn:zero-amplitude")
            if order != sorted(order):
                ctx.count("addn:permuted-order")
            am = amps if amps is not None else [1] * len(kids)
            d = sum(a * k[1] for a, k in zip(am, kids))
            sc = sum(abs(a) * k[2] for a, k in zip(am, kids))
            if all(a == 0 for a in am):
                sc = max(k[2] for k in kids)          # everything vanishes: judged relative to the operands
            if amps is not None and any(isinstance(a, complex) or a < 0 for a in amps):
                ctx.count("addn_mixed_sign_or_phase")
        elif op == "addself":
            a, how = kids[0], par["how"]
            if how == "+":
                y, c = a[0] + a[0], 2
            elif how == "add3":
                y, c = mps.add(a[0], a[0], a[0]), 3
            elif how == "add-amps":
                y, c = mps.add(*([a[0]] * len(par["amps"])), amplitudes=par["amps"]), sum(par["amps"])
            else:
                y, c = a[0] - a[0], 0
            d = a[1] * c
            sc = a[2] * (sum(abs(x) for x in par["amps"]) if how == "add-amps" else max(abs(c), 2))
            ctx.count("addself:" + how)
        elif op in ("mul", "rmul", "npmul"):
            c = par["c"]
            y = kids[0][0] * c if op == "mul" else c * kids[0][0]
            d, sc = kids[0][1] * c, abs(c) * kids[0][2]
            if c == 0:
                ctx.count("scalar_zero")
                sc = kids[0][2]
            if c == 1:
                ctx.count("scalar_one")
        elif op == "div":
            c = par["c"]
            y = kids[0][0] / c
            d, sc = kids[0][1] / c, kids[0][2] / abs(c)
        elif op == "neg":
            y = -kids[0][0]
            d, sc = -kids[0][1], kids[0][2]
        elif op == "copy":
            y = getattr(kids[0][0], par["how"])()
            d, sc = kids[0][1], kids[0][2]
            if y is kids[0][0] or y.A is kids[0][0].A:
                ctx.violation("copy-not-new:" + par["how"], f"{par['how']}() returned the same object / the same tensor dict")
            if self.rng.random() < 0.5 and R.nrm(d) > 0:
                # twins: an in-place sweep on a copy must not move the state its original represents.  (A second copy is
                # swept: canonize_ gives the bonds the standard signatures, which changes the structural type of conj'd /
                # reversed objects, so the swept twin is not used further.)
                getattr(kids[0][0], par["how"])().canonize_(to=self.rng.choice(("first", "last")), normalize=False)
                self.sigparts.append({"twin": par["how"] + " then canonize_ on the copy"})
                self.compare(f"original after {par['how']}() and canonize_ of the copy", "twin-original:" + par["how"], kids[0][0], d,
                             max(sc, R.cond_scale(kids[0][0])), full=False)
                ctx.count("twin_checks")
        elif op == "conj":
            y = kids[0][0].conj()
            d, sc = np.conj(kids[0][1]), kids[0][2]
        elif op == "T":
            y = kids[0][0].T if par["how"] == "prop" else kids[0][0].transpose()
            d, sc = (kids[0][1].T if kids[0][1].ndim == 2 else kids[0][1]), kids[0][2]
        elif op == "H":
            y = kids[0][0].H if par["how"] == "prop" else kids[0][0].conjugate_transpose()
            d, sc = (kids[0][1].conj().T if kids[0][1].ndim == 2 else np.conj(kids[0][1])), kids[0][2]
        elif op == "reverse":
            y = kids[0][0].reverse_sites()
            d, sc = R.reverse_dense(kids[0][1], loc.d, N), kids[0][2]
        elif op == "matmul":
            a, b = kids
            if par["how"] == "@":
                y = a[0] @ b[0]
            elif par["how"] == "multiply":
                y = mps.multiply(a[0], b[0])
            else:
                y = mps.multiply(a[0], b[0], mode="hard")
                # mode='meta' yields meta-fused virtual legs, which Env/eye() reject by design ("eye() does not support
                # 'meta'-fused legs"): such a product is only contracted and compared, never used further
                meta = mps.multiply(a[0], b[0], mode="meta")
            d, sc = a[1] @ b[1], a[2] * b[2]
            op = "matmul:mpo@" + ("mps" if b[1].ndim == 1 else "mpo")
        else:  # pragma: no cover
            raise RuntimeError(op)
        ctx.count("op:" + op)
        if y.nr_phys != (1 if d.ndim == 1 else 2) or y.N != N:
            ctx.violation("result-kind:" + op, f"{op}: result has nr_phys={y.nr_phys}, N={y.N}")
            raise Stop
        self.sigparts.append(node.desc())
        sc = max(sc, R.cond_scale(y))
        try:
            self.compare(f"{op} {par if par else ''}", op, y, d, sc, full=root)
            if meta is not None:
                self.compare("multiply(mode='meta')", "matmul:mode-meta", meta, d, sc, full=False)
                ctx.count("matmul_mode_meta")
        except Exception as e:
            if type(e).__name__ == "YastnError" and "Bond dimensions" in str(e) and nested_history(y):
                ctx.count("sum_inside_product_history_contraction_failed")
                ctx.violation("contraction:sum-inside-product-fusion-history:bond-dimensions-do-not-match",
                              f"{op}: the result cannot be contracted (to_tensor raises YastnError('{e}')): its virtual legs carry a "
                              "hard-fusion history with a direct sum inside a product (p(s(oo)o) from (a + b) @ c) and the sector "
                              "lists of the two sides of a bond differ; the masks of _masks_hfs_intersection (_merging.py:771) "
                              "then give different dimensions.  (a @ c) + (b @ c) is fine.", self.witness())
                raise Stop
            raise
        return y, d, sc

    def eval_leaf(self, node):
        import yastn
        import yastn.tn.mps as mps
        import random as _random
        ctx, loc, N = self.ctx, self.loc, self.N
        par = node.par
        kind, q, dtype, src = par["kind"], par["q"], par["dtype"], par["src"]
        rng = _random.Random(par["seed"])
        nprng = np.random.default_rng(par["seed"])
        nrp = 1 if kind == "mps" else 2
        truth = None
        ct = None
        if src == "identity":
            y = mps.product_mpo(loc.ops.I(), N) if rng.random() < 0.6 else mps.product_mpo([loc.ops.I()] * N)
            truth = np.eye(loc.d ** N)
        if src == "random":
            loc.cfg.backend.random_seed(par["seed"] % (2 ** 32))
            I = mps.product_mpo(loc.ops.I(), N)
            Dt = rng.choice((2, 3, 4, 6))
            kw = {"D_total": Dt, "sigma": rng.choice((1, 2)), "dtype": dtype}
            if rng.random() < 0.3:
                kw["distribution"] = "normal"
            defaults = dtype == "float64" and q == G.zero(loc.sym) and rng.random() < 0.35
            if defaults:
                Dt, kw = 8, {}                      # every optional argument omitted: n=None, D_total=8, float64
                ctx.count("defaults:random_mps/random_mpo")
            try:
                if kind == "mps":
                    nq = None if (q == G.zero(loc.sym) and rng.random() < 0.3) else (q[0] if len(q) == 1 and rng.random() < 0.5 else q)
                    y = mps.random_mps(I) if defaults else mps.random_mps(I, n=nq, **kw)
                else:
                    y = mps.random_mpo(I, **kw)
            except yastn.YastnError as e:
                if "zero state" not in str(e):
                    raise
                ctx.count("random_leaf_zero_state_rejected")     # documented outcome of an unlucky draw
                src = "harness"
            else:
                if max(y.get_bond_dimensions()) > Dt:
                    ctx.violation("random_mps:D_total-exceeded", f"random_{kind} with D_total={Dt} has bonds {y.get_bond_dimensions()}")
                truth = None
                par["bonds"] = y.get_bond_dimensions()
        if src == "harness":
            ch = R.gen_chain(rng, nprng, loc, N, kind, q=q, dtype=dtype, dmax=self.dmax)
            if par.get("at") == "last":
                ch = R.mirror_chain(ch)
                ctx.count("leaf:harness:charge-on-last-leg" + (":nonzero" if q != G.zero(loc.sym) else ""))
            y, truth = ch.to_yastn(), ch.dense()
            par["bonds"] = ch.bond_desc()
        elif src == "product":
            ch = R.gen_chain(rng, nprng, loc, N, kind, q=q, dtype=dtype, dmax=1, extra=0.0, density=1.0)
            # bond dimension one: re-use the backbone charges to build N vectors / operators
            vecs, dens = [], []
            for h in ch.sites:
                tl, tr = h.legs[0].ts[0], h.legs[2].ts[0]
                n_site = G.add(loc.sym, (tl, tr), (1, -1))
                legs = [loc.hleg(1)] + ([loc.hleg(-1)] if kind == "mpo" else [])
                hv = D.gen_tensor(rng, nprng, loc.sym, legs=legs, n=n_site, dtype=dtype, density=1.0, fermionic=loc.fermionic)
                vecs.append(hv)
                dens.append(hv.dense())
            cyc = len({v.n for v in vecs}) == 1 and rng.random() < 0.5
            if cyc:
                k = rng.choice([k for k in range(1, N + 1)])
                vecs, dens = vecs[:k], [dens[i % k] for i in range(N)]
            yv = [v.to_yastn(loc.cfg) for v in vecs]
            f = mps.product_mps if kind == "mps" else mps.product_mpo
            if cyc and len(yv) == 1 and rng.random() < 0.5:
                y = f(yv[0], N=N)
            elif cyc:
                y = f(yv, N=N)
            else:
                y = f(yv)
            truth = dens[0]
            for x in dens[1:]:
                truth = np.kron(truth, x)
            if max(y.get_bond_dimensions()) != 1:
                ctx.violation("product-state:bond-dimension", f"product_{kind}: bond dimensions {y.get_bond_dimensions()}")
        elif src == "from_tensor":
            ht = R.gen_full_tensor(rng, nprng, loc, N, kind, q=q, dtype=dtype, density=rng.choice((1.0, 1.0, 0.6)))
            if not ht.blocks or R.nrm(ht.dense()) < 1e-6:
                ht = R.gen_full_tensor(rng, nprng, loc, N, kind, q=q, dtype=dtype, density=1.0)
            yt = ht.to_yastn(loc.cfg)
            kw = {"canonize": par["canonize"]}
            if par["opts"] is not None:
                kw["opts_svd"] = dict(par["opts"])
            if kind == "mps" and kw == {"canonize": "last"} and rng.random() < 0.6:
                # every optional argument omitted.  NB: the docstring says "The default is 'first'", the signature (and the
                # result) is canonize='last'; the canonical form is judged against the signature, the mismatch is counted
                y = mps.mps_from_tensor(yt)
                ctx.count("defaults:mps_from_tensor")
                ctx.count("note:mps_from_tensor-docstring-default-first-vs-signature-last")
            elif kind == "mpo" and kw == {"canonize": "balance"} and rng.random() < 0.6:
                y = mps.mpo_from_tensor(yt)
                ctx.count("defaults:mpo_from_tensor")
            elif kind == "mps":
                y = mps.mps_from_tensor(yt, **kw) if rng.random() < 0.7 else mps.mps_from_tensor(yt, nr_phys=1, **kw)
            else:
                y = mps.mpo_from_tensor(yt, **kw) if rng.random() < 0.5 else mps.mps_from_tensor(yt, nr_phys=2, **kw)
            truth = R.full_tensor_dense(ht, N, kind, loc.d)
            ct = 2.0e5          # default truncation tolerance of mps_from_tensor is 1e-14 relative
            if par["canonize"] in ("first", "last"):
                worst = max(R.site_isometry_defect(y[n], par["canonize"], nrp) for n in range(N))
                if not ctx.margin("isometry:mps_from_tensor", worst, 1e-11):
                    ctx.violation("mps_from_tensor:not-canonical", f"canonize={par['canonize']}: site isometry defect {worst:.2e}")
            ctx.count("from_tensor:" + par["canonize"])
        ctx.count("leaf:" + src)
        if y.nr_phys != nrp or y.N != N:
            ctx.violation("result-kind:leaf-" + src, f"{src}: leaf has nr_phys={y.nr_phys}, N={y.N}")
            raise Stop
        self.sigparts.append(node.desc())
        if truth is None:
            truth = R.observe(ctx, y, loc, f"leaf {src}", full=True)
            # the state must live in the requested charge sector
            v = R.as_site_major(truth, loc.d, N)
            lab = R.basis_charges(loc, N, kind)
            bad = [tuple(int(z) for z in lab[i]) for i in np.flatnonzero(v != 0)[:2000] if tuple(int(z) for z in lab[i]) != tuple(q)]
            if bad:
                ctx.violation("random_mps:wrong-charge", f"random_{kind} n={q}: amplitude on basis states of charge {bad[0]}")
            if R.nrm(truth) == 0:
                ctx.violation("random_mps:zero-state-returned", f"random_{kind} returned a vanishing state without raising")
            sc = max(R.nrm(truth), R.cond_scale(y))
        else:
            sc = max(R.nrm(truth), R.cond_scale(y))
            self.compare(f"leaf {src} {kind} q={q}", "leaf-" + src, y, truth, sc, full=True, ct=ct)
        if q != G.zero(loc.sym):
            ctx.count("nonzero_charge_leaves")
        if dtype == "complex128":
            ctx.count("complex_leaves")
        # amplitude carried by one site tensor instead of psi.factor (everything downstream is judged relatively)
        if par.get("site_scale") is not None:
            x, n = par["site_scale"], rng.randrange(N)
            y = y.shallow_copy()
            y[n] = x * y[n]
            truth = truth * x
            sc = max(R.nrm(truth), R.cond_scale(y))
            self.compare(f"leaf psi[{n}] = {x} * psi[{n}]", "leaf-site-scale", y, truth, sc, full=False)
            ctx.count("leaf:site-amplitude-scale")
            if x <= 1e-15:
                ctx.count("leaf:tiny-site-amplitude")
        # non-unit factor
        fac = par["factor"]
        if fac == "pos":
            c = rng.choice((2.5, 0.25, 3))
            f0 = y.factor
            y = c * y
            truth = truth * c
            sc *= c
            if abs(y.factor - c * f0) > 4 * R.EPS * c * f0:
                ctx.violation("factor:positive-scalar", f"{c} * psi (factor {f0}) has factor {y.factor}")
        elif fac in ("canon-first", "canon-last"):
            y = y.shallow_copy()
            y.canonize_(to=fac[6:], normalize=False)
            self.compare(f"leaf canonize_(to={fac[6:]}, normalize=False)", "leaf-canonize", y, truth, sc, full=False, ct=2e5)
        return y, truth, sc


# ------------------------------------------------------------------ measurements

def vanishing(y):
    return any(y[n].size == 0 for n in range(y.N))


def guarded_mpo(E, f, ops):
    """Run a measurement involving operator MPOs; an IndexError while one of them has block-less tensors (a product that
    vanishes identically by symmetry) is the specific mechanism 'Env for a vanishing operator'."""
    try:
        return f()
    except IndexError as e:
        if any(vanishing(o) for o in ops) and "tuple index out of range" in str(e):
            E.ctx.count("measure:vanishing-operator")
            E.ctx.violation("measure_mpo:vanishing-operator:IndexError",
                            "measure_mpo / Env with an operator MPO whose tensors have no blocks (e.g. (S+ on site 0) @ (S+ on site 0)) "
                            "raises IndexError in EnvParent_3_obc.__init__ (legv.t[0], _env.py:478) instead of returning 0; "
                            "measure_overlap, add, @, norm all return 0 for such objects", E.witness())
            raise Stop
        raise


def number_check(E, key, got, exp, scale, what):
    ctx = E.ctx
    try:
        g = complex(got)
    except Exception:
        ctx.violation("measure-type:" + key, f"{what}: returned {type(got).__name__}")
        return
    err = abs(g - complex(exp))
    allowed = 10 * CT * R.EPS * max(scale, 1e-300)     # contractions of three chains: conditioning beyond the dense norms
    ctx.count("numbers_compared")
    if not ctx.margin("number:" + key.split(":")[0], err, allowed):
        ctx.violation("value:" + key, f"{what}: {g} vs dense {complex(exp)} (|diff| {err:.3e}, allowed {allowed:.3e})", E.witness())


def fam_tree(E, idx):
    """expression tree + overlap / measure_mpo at the root."""
    import yastn.tn.mps as mps
    rng, ctx = E.rng, E.ctx
    kind = "mps" if (not E.allow_mpo or rng.random() < 0.6) else "mpo"
    depth = rng.choice((1, 2, 2, 3, 3))
    root = E.tree(kind, depth)
    y, d, sc = E.eval(root, root=True)
    meas = rng.choice(("overlap", "overlap", "mpo", "mpo", "mpo-sum", "none"))
    if meas.startswith("mpo") and not E.allow_mpo:
        meas = "overlap"
    E.zero_ok = False
    if meas == "overlap":
        other = E.partner(root.ts, depth=1)
        y2, d2, sc2 = E.eval(other)
        how = rng.choice(("measure_overlap", "vdot", "swapped"))
        if how == "measure_overlap":
            number_check(E, "measure_overlap", mps.measure_overlap(y, y2), np.vdot(d, d2), sc * sc2, "measure_overlap(x, x')")
        elif how == "vdot":
            number_check(E, "measure_overlap:vdot", mps.vdot(y, y2), np.vdot(d, d2), sc * sc2, "vdot(x, x')")
        else:
            number_check(E, "measure_overlap", mps.measure_overlap(y2, y), np.vdot(d2, d), sc * sc2, "measure_overlap(x', x)")
        number_check(E, "measure_overlap:self", mps.measure_overlap(y, y), np.vdot(d, d), sc * sc, "measure_overlap(x, x)")
        ctx.count("measure:overlap")
    elif meas in ("mpo", "mpo-sum"):
        other = E.partner(root.ts, depth=1)
        y2, d2, sc2 = E.eval(other)
        nops = 1 if meas == "mpo" else rng.choice((2, 2, 3))
        ops = []
        for _ in range(nops):
            o = E.tree("mpo", rng.choice((0, 0, 1)), q=G.zero(E.loc.sym))
            o = E.coerce(o, ts_ksig(root.ts), ts_rev(root.ts))
            ops.append(E.eval(o))
        M = sum(o[1] for o in ops)
        scale = sc * sc2 * sum(o[2] for o in ops)
        exp = np.vdot(d, M @ d2)
        if meas == "mpo":
            op_arg = ops[0][0]
        else:
            op_arg = [o[0] for o in ops]
            rng.shuffle(op_arg)                     # user-controlled container: any order, list or tuple
            if rng.random() < 0.5:
                op_arg = tuple(op_arg)
            ctx.count("measure:mpo-sum:ops-as-" + type(op_arg).__name__)
        fn = mps.vdot if rng.random() < 0.3 else mps.measure_mpo
        got = guarded_mpo(E, lambda: fn(y, op_arg, y2), [o[0] for o in ops])
        number_check(E, "measure_mpo" + (":sum" if nops > 1 else "") + (":mpo-state" if kind == "mpo" else ""), got, exp, scale,
                     f"measure_mpo(x, {nops} op(s), x')")
        ctx.count("measure:" + meas)
        if kind == "mpo":
            ctx.count("measure:mpo-on-mpo-state")
    E.sig = (root.shape(), meas)
    E.sample = {"tree": root.desc(), "measure": meas}


def fam_measure(E, idx):
    """charged operators on every orientation of the boundary legs (conj / reverse_sites / H / T operands, total charge on the
    first or on the last virtual leg), periodic MPO, on_bra, nested Env sums (also reversed / conjugated, with charged
    operators), different-charge overlaps."""
    import yastn.tn.mps as mps
    rng, ctx, loc, N = E.rng, E.ctx, E.loc, E.N
    E.zero_ok = False
    if not E.allow_mpo:
        E.N = N = rng.randint(1, E.nmax_mpo)
        E.allow_mpo = True
    which = rng.choice(("charged", "charged", "charged", "pbc", "pbc", "on_bra", "env_sum", "env_sum", "diff-charge"))
    zero = G.zero(loc.sym)
    E.at_mode = "first"
    if which == "charged":
        # <bra| op |ket> with an operator that changes the charge, on every orientation of the boundary legs:
        # common flags c (conj) / r (reverse_sites) on all three operands, op alternatively as H (states plain) or T (states
        # conjugated), total charges carried by the first or by the last virtual leg of the leaves
        kind = "mps" if (rng.random() < 0.75 or loc.d ** N > 64) else "mpo"
        E.at_mode = at = rng.choice(("first", "last"))
        flags = {f for f in "cr" if rng.random() < 0.5}
        alt = rng.random() < 0.33
        kq = E.draw_q(kind)
        nonzero = [t for t in R.admissible_charges(loc, N, "mpo") if t != zero]
        turning = [t for t in nonzero if G.neg(loc.sym, t) != t]
        oq = rng.choice(turning) if (turning and rng.random() < 0.7) else (rng.choice(nonzero) if (nonzero and rng.random() < 0.8) else zero)
        ket = E.eval(E.wrap(E.tree(kind, rng.choice((0, 0, 1)), normal_only=True, q=kq), flags))
        opn = E.tree("mpo", rng.choice((0, 0, 1)), normal_only=True, q=oq)
        steps = [("T" if alt else "conj")] if "c" in flags else (["H"] if alt else [])
        steps += ["reverse"] if "r" in flags else []
        rng.shuffle(steps)
        for f in steps:
            opn = E.unary(f, opn)
        op = E.eval(opn)
        target = op[1] @ ket[1]
        bq = support_charge(E, target, kind)
        if bq is None or bq not in R.admissible_charges(loc, N, kind) or rng.random() < 0.06:
            bq = E.draw_q(kind)
        bra = E.eval(E.wrap(E.tree(kind, rng.choice((0, 0, 1)), normal_only=True, q=bq), flags))
        exp = np.vdot(bra[1], target)
        scale = bra[2] * op[2] * ket[2]
        fn = mps.vdot if rng.random() < 0.3 else mps.measure_mpo
        got = guarded_mpo(E, lambda: fn(bra[0], op[0], ket[0]), [op[0]])
        tag = ("+".join(sorted(flags)) or "plain") + ("/op-" + ("T" if "c" in flags else "H") if alt else "")
        number_check(E, "measure_mpo:charged-op" + (":reversed" if "r" in flags else ""), got, exp, scale,
                     f"measure_mpo on {kind} states, operands {tag}, charge on the {at} leg; operator charge {oq}, ket {kq}, bra {bq}")
        ctx.count("measure:mpo")
        ctx.count("measure:charged-op" + (":nonzero" if oq != zero else ""))
        ctx.count("measure:charged-op:operands=" + tag)
        ctx.count("measure:charged-op:charge-at-" + at)
        if kind == "mpo":
            ctx.count("measure:charged-op:mpo-states")
        if abs(exp) > 1e-9 * scale:
            ctx.count("measure:charged-op-nonvanishing")
            if oq != zero and "r" in flags:
                ctx.count("measure:charged-op:reversed-nonzero-nonvanishing")
            if oq != zero and at == "last":
                ctx.count("measure:charged-op:at-last-nonzero-nonvanishing")
            if oq != zero and "c" in flags:
                ctx.count("measure:charged-op:conj-nonzero-nonvanishing")
            for where in flipped_boundary_charge(E, op[0]):
                ctx.count("measure:op-charge-on-flipped-boundary-leg:nonvanishing")
                ctx.count("measure:op-charge-on-flipped-" + where + "-leg:nonvanishing")
        E.sig = ("charged", kind, tag, at, kq, oq, bq)
    elif which == "pbc":
        q = E.draw_q("mps")
        ket = E.eval(E.tree("mps", rng.choice((0, 1)), normal_only=True, q=q))
        bra = E.eval(E.tree("mps", rng.choice((0, 1)), normal_only=True, q=q))
        ch = R.gen_pbc(rng, E.nprng, loc, N)
        yop, M = ch.to_yastn(), ch.dense()
        fac = rng.choice((1, 1, 2.0, -1.5, 0.5j))
        if fac != 1:
            yop, M = fac * yop, fac * M
        obs = R.observe(ctx, yop, loc, "periodic MPO", full=True)
        ctx.count("nodes_compared")
        if not ctx.margin("value:pbc-to_tensor", R.maxabs(obs - M), E.tol(R.nrm(M))):
            ctx.violation("value:MpoPBC.to_tensor", f"periodic MPO: to_tensor differs from harness truth by {R.maxabs(obs - M):.3e}")
            raise Stop
        ops, Ms = [yop], M
        kind = "measure_mpo:pbc"
        if rng.random() < 0.3:
            o2 = E.eval(E.tree("mpo", 0, normal_only=True, q=zero))
            ops.append(o2[0])
            Ms = M + o2[1]
            kind = "measure_mpo:pbc+obc-sum"
            sc = max(R.nrm(M), R.cond_scale(yop)) + o2[2]
        else:
            sc = max(R.nrm(M), R.cond_scale(yop))
        exp = np.vdot(bra[1], Ms @ ket[1])
        got = mps.measure_mpo(bra[0], ops[0] if len(ops) == 1 else ops, ket[0])
        number_check(E, kind, got, exp, bra[2] * sc * ket[2], "measure_mpo with a periodic MPO")
        ctx.count("measure:mpo-pbc")
        E.sig = ("pbc", q, ch.sig())
    elif which == "on_bra":
        ket = E.eval(E.tree("mpo", rng.choice((0, 1)), normal_only=True, q=zero))
        bra = E.eval(E.tree("mpo", rng.choice((0, 1)), normal_only=True, q=zero))
        op = E.eval(E.tree("mpo", 0, normal_only=True, q=zero))
        exp = np.vdot(bra[1], ket[1] @ op[1])
        got = guarded_mpo(E, lambda: mps.measure_mpo(bra[0], op[0].on_bra(), ket[0]), [op[0]])
        number_check(E, "measure_mpo:on_bra", got, exp, bra[2] * op[2] * ket[2], "measure_mpo(bra, op.on_bra(), ket) on MPO states")
        ctx.count("measure:on_bra")
        E.sig = ("on_bra",)
    elif which == "env_sum":
        kind = rng.choice(("mps", "mps", "mpo"))
        E.at_mode = at = rng.choice(("first", "last"))
        flags = {f for f in "cr" if rng.random() < 0.5}
        adm = R.admissible_charges(loc, N, kind)
        q = E.draw_q(kind)
        bra = E.eval(E.wrap(E.leaf_node(kind, q), flags))
        terms, exp, scale, shape = [], 0.0, 0.0, []
        for _ in range(rng.randint(1, 3)):
            form = rng.choice(("ket", "op-ket", "ops-ket"))
            if form == "ket":
                ket = E.eval(E.wrap(E.leaf_node(kind, q), flags))
                terms.append([ket[0]])
                exp = exp + np.vdot(bra[1], ket[1])
                scale += ket[2]
            else:
                # operators may change the charge: the ket then starts from q - q_op
                cand = [t for t in R.admissible_charges(loc, N, "mpo") if t != zero and G.add(loc.sym, (q, t), (1, -1)) in adm]
                qo = rng.choice(cand) if (cand and rng.random() < 0.6) else zero
                ket = E.eval(E.wrap(E.leaf_node(kind, G.add(loc.sym, (q, qo), (1, -1))), flags))
                os_ = [E.eval(E.wrap(E.leaf_node("mpo", qo), flags)) for _ in range(1 if form == "op-ket" else rng.randint(2, 3))]
                terms.append([os_[0][0] if form == "op-ket" else [o[0] for o in os_], ket[0]])
                exp = exp + np.vdot(bra[1], sum(o[1] for o in os_) @ ket[1])
                scale += ket[2] * sum(o[2] for o in os_)
                if qo != zero:
                    form += ":charged"
                    ctx.count("measure:env-sum:charged-op" + (":reversed" if "r" in flags else ""))
                    if abs(np.vdot(bra[1], sum(o[1] for o in os_) @ ket[1])) > 1e-9 * bra[2] * ket[2] * sum(o[2] for o in os_):
                        for where in flipped_boundary_charge(E, os_[0][0]):
                            ctx.count("measure:op-charge-on-flipped-boundary-leg:nonvanishing")
                            ctx.count("measure:op-charge-on-flipped-" + where + "-leg:nonvanishing")
            shape.append(form)
        env = mps.Env(bra[0], terms if len(terms) > 1 or rng.random() < 0.5 else terms[0])
        got = env.measure(bd=(-1, N))
        tag = "+".join(sorted(flags)) or "plain"
        number_check(E, "Env-sum.measure" + (":reversed" if "r" in flags else ""), got, exp, bra[2] * scale,
                     f"Env(bra, {shape}).measure, operands {tag}, charge on the {at} leg")
        ctx.count("measure:env-sum")
        ctx.count("measure:env-sum:operands=" + tag)
        E.sig = ("env_sum", kind, tuple(shape), tag, at)
    else:
        kind = rng.choice(("mps", "mpo"))
        adm = R.admissible_charges(loc, N, kind)
        if len(adm) < 2:
            raise CaseSkip
        q1, q2 = rng.sample(adm, 2)
        a = E.eval(E.leaf_node(kind, q1))
        b = E.eval(E.leaf_node(kind, q2))
        got = mps.measure_overlap(a[0], b[0])
        number_check(E, "measure_overlap:different-charges", got, np.vdot(a[1], b[1]), a[2] * b[2], f"overlap of charges {q1} and {q2}")
        ctx.count("measure:overlap-different-charges")
        E.sig = ("diff-charge", kind)
    E.sample = {"measure": which}


def _leaf_node(self, kind, q):
    return self.leaf(kind, q, src=self.rng.choice(("harness", "harness", "random", "product")))


def _wrap(self, node, flags):
    """Apply conj ('c') and reverse_sites ('r') in random order."""
    fl = [f for f in "cr" if f in flags]
    self.rng.shuffle(fl)
    for f in fl:
        node = self.unary({"c": "conj", "r": "reverse"}[f], node)
    return node


def support_charge(E, x, kind):
    """Charge label (sum of the local labels; bras minus kets for operators) of the largest element of a dense image."""
    v = R.as_site_major(np.asarray(x), E.loc.d, E.N)
    if not np.any(v):
        return None
    lab = R.basis_charges(E.loc, E.N, kind)
    return tuple(int(z) for z in lab[int(np.argmax(np.abs(v)))])


def flipped_boundary_charge(E, opy):
    """Which boundary legs of an operator carry a charge t with -t != t on a leg of *reversed* signature (first leg +1 /
    last leg -1), as produced by reverse_sites() or conj()/H of charged MPOs -- the orientations for which the boundary
    environments must turn the charge around."""
    out, sym = [], E.loc.sym
    for where, std in (("first", -1), ("last", 1)):
        leg = opy.virtual_leg(where)
        if len(leg.t) == 1 and int(leg.s) == -std:
            t = tuple(int(x) for x in leg.t[0])
            if t != G.zero(sym) and G.neg(sym, t) != t:
                out.append(where)
    return out


Env.wrap = _wrap


Env.leaf_node = _leaf_node


def normalized(x):
    n = R.nrm(x)
    return x / n if n else x


def fam_zipper(E, idx):
    """zipper(a, b) with non-binding truncation (OBC and periodic a) vs the exact product."""
    import yastn.tn.mps as mps
    rng, ctx, loc = E.rng, E.ctx, E.loc
    E.zero_ok = False
    E.at_mode = "first"
    if not E.allow_mpo:
        E.N = rng.randint(1, E.nmax_mpo)
        E.allow_mpo = True
    N = E.N
    zero = G.zero(loc.sym)
    pbc = rng.random() < 0.25
    kindb = "mps" if (pbc or rng.random() < 0.65 or loc.d ** N > 64) else "mpo"
    b = E.eval(E.tree(kindb, rng.choice((0, 0, 1)), normal_only=True))
    if pbc:
        ch = R.gen_pbc(rng, E.nprng, loc, N)
        ya, Ma = ch.to_yastn(), ch.dense()
        fac = rng.choice((1, 2.0, -0.5))
        if fac != 1:
            ya, Ma = fac * ya, fac * Ma
        a = (ya, Ma, max(R.nrm(Ma), R.cond_scale(ya)))
    else:
        a = E.eval(E.tree("mpo", rng.choice((0, 0, 1)), normal_only=True, q=zero if rng.random() < 0.8 else None))
    exact = a[1] @ b[1]
    ne = R.nrm(exact)
    scale = a[2] * b[2]
    if ne < 1e-6 * scale:
        ctx.count("zipper_product_vanishes")
        raise CaseSkip
    opts = dict(rng.choice(NONBINDING))
    normalize = rng.random() < 0.5
    rd = rng.random() < 0.6
    for y in (a[0], b[0]):
        if y.factor != 1:
            ctx.count("factor_nonunit_operands")
    if rng.random() < 0.15:
        # per-sector limits given as a dictionary built in shuffled insertion order (non-binding values)
        ts = sorted(R.reach_sets(loc, N, "mpo")[0] | {G.add(loc.sym, (x, z)) for x in R.reach_sets(loc, N, "mpo")[0]
                                                      for z in set().union(*R.reach_sets(loc, N, kindb))})
        ts = ts[:400]
        rng.shuffle(ts)
        opts = {"D_block": {t: 10000 for t in ts}, "D_total": 100000}
        ctx.count("opts:D_block-dict-shuffled")
    if normalize and not rd and rng.random() < 0.6:
        out = mps.zipper(a[0], b[0], opts_svd=opts)          # normalize / return_discarded omitted
        ctx.count("defaults:zipper")
    else:
        out = mps.zipper(a[0], b[0], opts_svd=opts, normalize=normalize, return_discarded=rd)
    if rd:
        out, disc = out
        if not ctx.margin("zipper:discarded-nonbinding", abs(disc), 1e-9):
            ctx.violation("zipper:discarded-weight-nonbinding", f"nothing but null values truncated (opts {opts}) yet discarded={disc}")
    exp = exact / ne if normalize else exact
    sc = scale / ne if normalize else scale
    tag = "zipper:pbc" if pbc else "zipper"
    E.sigparts.append({"zipper": {"opts": opts, "normalize": normalize, "pbc": pbc, "b": kindb}})
    E.compare(f"zipper(opts_svd={opts}, normalize={normalize})", tag + (":normalize" if normalize else ""), out, exp, sc, full=True,
              ct=10 * CT)
    if normalize and out.factor != 1:
        ctx.violation("zipper:factor-normalize", f"normalize=True left factor {out.factor}")
    worst = max(R.site_isometry_defect(out[n], "first", out.nr_phys) for n in range(1, N)) if N > 1 else 0.0
    if not ctx.margin("isometry:zipper", worst, 1e-10):
        ctx.violation("zipper:not-canonical", f"result is documented to be canonized to the first site; defect {worst:.2e}")
    ctx.count("zipper")
    ctx.count("zipper:pbc" if pbc else "zipper:obc-" + kindb)
    # default arguments: opts_svd=None
    if rng.random() < 0.15:
        try:
            out2 = mps.zipper(a[0], b[0])
        except TypeError as e:
            if "must be a mapping" not in str(e):
                raise
            ctx.count("zipper_default_opts_svd_None_raises_TypeError")   # reported to the lead; not judged (opts_svd is documented as dict)
        else:
            E.compare("zipper(default opts)", "zipper:default", out2, exact / ne, scale / ne, ct=10 * CT)
    E.sig = ("zipper", pbc, kindb, normalize, tuple(sorted(opts)))
    E.sample = {"zipper": {"opts": opts, "normalize": normalize, "pbc": pbc}}


def random_like(E, ref, kind, small=False):
    """A random MPS/MPO whose virtual spaces can hold ``ref`` (start for 1site compression) -- values from yastn.rand.
    ``ref`` is canonized first so that every bond carries fresh, mutually consistent legs (products carry fused legs
    whose histories differ across a bond)."""
    import yastn
    import yastn.tn.mps as mps
    cfg = E.loc.cfg
    cfg.backend.random_seed(E.rng.getrandbits(32))
    ref = ref.shallow_copy()
    ref.canonize_(to="first", normalize=True)
    psi = mps.Mps(E.N) if kind == "mps" else mps.Mpo(E.N)
    for n in range(E.N):
        psi[n] = yastn.rand(cfg, legs=ref[n].get_legs(), dtype=E.rng.choice(("float64", "complex128")))
    return psi


def fam_compression(E, idx):
    """compression_ (1site / 2site) converges to the exact target when nothing has to be truncated."""
    import yastn.tn.mps as mps
    rng, ctx, loc = E.rng, E.ctx, E.loc
    E.zero_ok = False
    E.at_mode = "first"
    if not E.allow_mpo or E.N > 5:
        E.N = rng.randint(1, min(E.nmax_mpo, 5))
        E.allow_mpo = True
    N = E.N
    zero = G.zero(loc.sym)
    method = rng.choice(("1site", "2site"))
    form = rng.choice(("op-ket", "op-ket", "ops-ket", "ket", "sum", "pbc"))
    kind = "mps" if (form == "pbc" or rng.random() < 0.7 or loc.d ** N > 64) else "mpo"
    q = E.draw_q(kind)

    def ket():
        return E.eval(E.leaf_node(kind, q))

    def op():
        return E.eval(E.leaf_node("mpo", zero))

    exact, yexact, target = None, None, None
    if form == "op-ket":
        o, k = op(), ket()
        target, exact, yexact = [o[0], k[0]], o[1] @ k[1], o[0] @ k[0]
        scale = o[2] * k[2]
    elif form == "ops-ket":
        os_, k = [op() for _ in range(rng.randint(2, 3))], ket()
        target, exact = [[o[0] for o in os_], k[0]], sum(o[1] for o in os_) @ k[1]
        yexact = mps.add(*[o[0] @ k[0] for o in os_])
        scale = sum(o[2] for o in os_) * k[2]
    elif form == "ket":
        k = ket()
        target, exact, yexact, scale = (k[0] if rng.random() < 0.5 else [k[0]]), k[1], k[0], k[2]
    elif form == "sum":
        k1, k2, o = ket(), ket(), op()
        c = rng.choice((2.0, -1.5, 0.5j))
        target, exact = [[c * k1[0]], [o[0], k2[0]]], c * k1[1] + o[1] @ k2[1]
        yexact = mps.add(c * k1[0], o[0] @ k2[0])
        scale = abs(c) * k1[2] + o[2] * k2[2]
    else:
        ch = R.gen_pbc(rng, E.nprng, loc, N)
        k = ket()
        yo = ch.to_yastn()
        target, exact = [yo, k[0]], ch.dense() @ k[1]
        yexact = None
        scale = max(R.nrm(ch.dense()), R.cond_scale(yo)) * k[2]
    ne = R.nrm(exact)
    if ne < 1e-3 * scale:
        ctx.count("compression_target_vanishes")
        raise CaseSkip
    # start
    if yexact is None:
        # periodic operator: virtual spaces from a non-truncating zipper
        yexact = mps.zipper(target[0], target[1], opts_svd={})
    if method == "1site":
        start = rng.choice(("random-legs-of-product", "random-legs-of-product", "exact-perturbed"))
        psi = random_like(E, yexact, kind)
        if start == "exact-perturbed":
            psi = mps.add(yexact, psi, amplitudes=[1.0, 0.1 * ne / max(psi.norm(), 1e-300)])
        opts = None
    else:
        # the start must overlap with the target in every sector the target uses (a 2-site update cannot create a sector
        # that neither environment reaches), so starts are drawn on the virtual spaces of the exact product
        start = rng.choice(("random-legs-of-product", "random-legs-of-product", "exact-perturbed"))
        psi = random_like(E, yexact, kind)
        if start == "exact-perturbed":
            psi = mps.add(yexact, psi, amplitudes=[1.0, 0.1 * ne / max(psi.norm(), 1e-300)])
        opts = dict(rng.choice(NONBINDING))
    normalize = rng.random() < 0.5
    sweeps = 6
    kw = {"method": method, "max_sweeps": sweeps, "normalize": normalize}
    if opts is not None:
        kw["opts_svd"] = opts
    if rng.random() < 0.3:
        kw["Schmidt_tol"] = 1e-14
    if rng.random() < 0.3:
        kw["overlap_tol"] = 1e-15
    if method == "1site" and normalize and rng.random() < 0.4:
        kw = {}                                       # pure defaults: method='1site', max_sweeps=1, normalize=True
        ctx.count("defaults:compression_")
    E.sig = ("compression", form, method, start, normalize, kind, tuple(sorted(opts or ())), tuple(sorted(kw)))
    E.sample = {"compression": {"form": form, "method": method, "start": start, "opts": opts, "normalize": normalize, "kwargs": sorted(kw)}}
    try:
        out = mps.compression_(psi, target, **kw)
    except ValueError as e:
        if N == 1 and "Schmidt_tol" in kw and "max() iterable argument is empty" in str(e):
            ctx.violation("compression_:N=1:Schmidt_tol:ValueError-empty-max",
                          "compression_ on a one-site chain with Schmidt_tol raises ValueError('max() iterable argument is empty') "
                          "(no bond -> empty Schmidt dictionary, _compression.py:167)", E.witness())
            ctx.count("compression:N=1-Schmidt_tol")
            return
        raise
    E.sigparts.append({"compression": {"form": form, "method": method, "start": start, "opts": opts, "normalize": normalize}})
    exp = exact / ne if normalize else exact
    obs = R.observe(ctx, psi, loc, "compression_ result", full=True)
    ctx.count("nodes_compared")
    err = R.nrm(obs - exp) / R.nrm(exp)
    cond = scale / ne
    if N == 1 and method == "2site":
        ctx.count("compression:N=1-2site")
        if err > 1e-10 * cond:
            ctx.violation("compression_:N=1:2site-does-not-update",
                          f"compression_(method='2site') on a one-site chain returns the (normalised) start state: relative "
                          f"distance to the target {err:.3e}, reported overlap {out.overlap}, max_discarded_weight "
                          f"{out.max_discarded_weight} (the 2-site sweep visits no bond, _compression.py:237)", E.witness())
        else:
            ctx.count("compression:N=1-2site-sector-is-one-dimensional")
        return
    if not ctx.margin("value:compression_" + method, err, 1e-10 * cond):
        ctx.violation(f"value:compression_:{method}" + (":normalize" if normalize else ""),
                      f"compression_({form}, {method}, start={start}, opts={opts}, normalize={normalize}) after {out.sweeps} sweeps: "
                      f"relative distance to the exact target {err:.3e}", E.witness())
    # reported overlap = <psi|target> with psi normalised
    ov = np.vdot(normalized(obs), exact)
    if not ctx.margin("number:compression-overlap", abs(complex(out.overlap) - ov), 1e-10 * scale):
        ctx.violation("value:compression_:reported-overlap", f"out.overlap={out.overlap} vs dense <psi|target>={ov}")
    if normalize and psi.factor != 1:
        ctx.violation("compression_:factor-normalize", f"normalize=True left factor {psi.factor}")
    worst = max(R.site_isometry_defect(psi[n], "first", psi.nr_phys) for n in range(1, N)) if N > 1 else 0.0
    if not ctx.margin("isometry:compression", worst, 1e-10):
        ctx.violation("compression_:not-canonical", f"result is documented to be canonized to the first site; defect {worst:.2e}")
    ctx.count("compression:" + method)
    ctx.count("compression-form:" + form)
    E.sig = ("compression", form, method, start, normalize, kind, tuple(sorted(opts or ())))
    E.sample = {"compression": {"form": form, "method": method, "start": start, "opts": opts, "normalize": normalize}}


def fam_central(E, idx):
    """Objects holding a central block: unary algebra must carry the block along (reverse_sites: transposed and re-indexed);
    add / multiply must reject them.  Observation: harness contraction with the central block where it sits."""
    import yastn
    import yastn.tn.mps as mps
    rng, ctx, loc = E.rng, E.ctx, E.loc
    E.zero_ok = False
    E.at_mode = "first"
    kind = "mps" if (not E.allow_mpo or rng.random() < 0.6) else "mpo"
    N = E.N
    y, d, sc = E.eval(E.tree(kind, rng.choice((0, 0, 1)), normal_only=True))
    y = y.shallow_copy()
    n, to = rng.randrange(N), rng.choice(("first", "last"))
    y.orthogonalize_site_(n, to=to, normalize=False)
    cscale = abs(y.factor)
    for t in y.A.values():
        cscale *= float(t.norm())
    cscale = max(cscale, sc)

    def look(what, key, obj, exp):
        obs, bad = R.obs_sites(obj, loc)
        ctx.count("nodes_compared")
        ctx.count("central_block_comparisons")
        # one mechanism, two symptoms: MPO.conjugate_transpose() loops over the sites only, so the central block keeps its
        # signature (symmetric tensors: legs no longer match) and its values (complex data: wrong operator)
        hkey = "central-block:conjugate_transpose-skips-central-block" if (key == "H" and kind == "mpo") else None
        if bad:
            ctx.violation(hkey or ("central-block:inconsistent-legs:" + key), f"{what} on an object with a central block at {y.pC}: {bad}",
                          E.witness())
            raise Stop
        err = R.maxabs(obs - exp) if obs.shape == exp.shape else float("inf")
        if not ctx.margin("value:central-" + key.split(":")[0], err, 10 * CT * R.EPS * cscale):
            ctx.violation(hkey or ("value:central-block:" + key), f"{what} on an object with a central block at {y.pC}: dense image "
                          f"differs by {err:.3e} (scale {cscale:.3e})", E.witness())
            raise Stop

    E.sigparts.append({"central": {"site": n, "to": to}})
    look(f"orthogonalize_site_({n}, {to}, normalize=False)", "orthogonalize_site_", y, d)
    cs0 = cscale
    # norm() while the central block is present (the other sites are in general not canonical)
    nrm_y = y.norm()
    ctx.count("central:norm-with-central-block")
    if not ctx.margin("number:central-norm", abs(nrm_y - R.nrm(d)), 10 * CT * R.EPS * cscale):
        ctx.violation("value:central-block:norm", f"norm() = {nrm_y!r} with a central block at {y.pC}, dense norm {R.nrm(d)!r}", E.witness())
        raise Stop
    op = rng.choice(("reverse", "reverse", "conj", "T", "H", "copy", "clone", "shallow_copy", "mul", "neg", "div"))
    c = rng.choice(SCALARS)
    E.sigparts.append({"op-with-central-block": op})
    if op == "reverse":
        z, e = y.reverse_sites(), R.reverse_dense(d, loc.d, N)
        exp_pC = (N - y.pC[1] - 1, N - y.pC[0] - 1)
    elif op == "conj":
        z, e, exp_pC = y.conj(), np.conj(d), y.pC
    elif op == "T":
        z, e, exp_pC = y.T, (d.T if d.ndim == 2 else d), y.pC
    elif op == "H":
        z, e, exp_pC = y.H, (d.conj().T if d.ndim == 2 else np.conj(d)), y.pC
    elif op in ("copy", "clone", "shallow_copy"):
        z, e, exp_pC = getattr(y, op)(), d, y.pC
    elif op == "mul":
        z, e, exp_pC = (c * y if rng.random() < 0.5 else y * c), c * d, y.pC
        cscale *= abs(c)
    elif op == "neg":
        z, e, exp_pC = -y, -d, y.pC
    else:
        z, e, exp_pC = y / c, d / c, y.pC
        cscale /= abs(c)
    if z.pC != exp_pC or exp_pC not in z.A:
        ctx.violation("central-block:position:" + op, f"{op}: pC={z.pC}, expected {exp_pC}", E.witness())
        raise Stop
    look(op, op, z, e)
    ctx.count("central:" + op)
    # the central block can be absorbed either way, and then to_tensor() sees the same state
    z2 = z.shallow_copy()
    z2.absorb_central_(to=rng.choice(("first", "last")))
    E.compare(f"{op} -> absorb_central_", "central-absorbed", z2, e, cscale, full=True, ct=10 * CT)
    # twins: absorbing / sweeping on the shallow copy must not move the object it was copied from, nor the original
    cscale = max(cscale, cs0)
    z2.canonize_(to=rng.choice(("first", "last")), normalize=False)
    look(f"{op}: twin after absorb_central_ + canonize_ on its shallow copy", "twin", z, e)
    look("original after operations on its copies", "twin", y, d)
    ctx.count("twin_checks")
    # documented rejections
    try:
        if rng.random() < 0.5:
            mps.add(z, z)
        elif z.nr_phys == 2:
            z @ z
        else:
            mps.add(z, z, amplitudes=[1, 2])
    except yastn.YastnError:
        ctx.count("central:add-multiply-rejected")
    else:
        ctx.violation("must-reject-accepted:central-block", "add / multiply accepted an operand with a central block", E.witness())
    E.sig = ("central", kind, op, to)
    E.sample = {"central": {"kind": kind, "op": op, "site": n, "to": to}}


FAMILIES = (fam_tree, fam_tree, fam_tree, fam_measure, fam_central, fam_tree, fam_measure, fam_zipper, fam_compression, fam_tree,
            fam_measure, fam_zipper, fam_tree)


def run_case(ctx, idx):
    E = Env(ctx, idx)
    fam = FAMILIES[(idx // len(R.SPACES)) % len(FAMILIES)]
    E.sig, E.sample = None, None
    try:
        fam(E, idx)
    except Stop:
        ctx.count("cases_stopped_at_first_violation")
    sig = (E.loc.tag(), E.N, fam.__name__, E.sig, tuple(repr(p)[:400] for p in E.sigparts[:6]))
    ctx.case(sig, nontrivial=ctx.counters["nodes_compared"] + ctx.counters["numbers_compared"] > 0,
             sample={"space": E.loc.tag(), "N": E.N, "family": fam.__name__, **(E.sample or {})})
    ctx.count("family:" + fam.__name__)


# ------------------------------------------------------------------ canaries

def canaries(ctx):
    """Corrupted observations must make the oracle fire."""
    import random
    sub = type(ctx)(ctx.prop, ctx.tier, ctx.seed)
    sub.idx = 0
    E = Env(sub, 2)          # Spin12/U1
    E.N, E.allow_mpo = 3, True
    node = E.leaf("mps", src="harness")
    node.par["factor"] = None
    y, d, sc = E.eval(node)
    # 1. one element of the expectation off by 1e-7 relative
    e = d.copy()
    k = int(np.flatnonzero(e)[0])
    e[k] *= 1 + 1e-7
    try:
        E.compare("canary", "canary", y, e, sc)
    except Stop:
        pass
    ctx.canary("value-flip", any(v["key"] == "value:canary" for v in sub.violations))
    sub.violations.clear()
    # 2. a site tensor corrupted behind to_tensor's back is seen by the site cross-check?  (corrupt factor bookkeeping instead)
    y2 = y.shallow_copy()
    y2.factor = 1.0000001
    try:
        E.compare("canary", "canary", y2, d, sc)
    except Stop:
        pass
    ctx.canary("factor-off", any(v["key"] == "value:canary" for v in sub.violations))
    sub.violations.clear()
    # 3. one stored number of one site tensor changed behind the object's back
    y3 = y.copy()
    y3[1]._data[0] += 1e-6 * max(1.0, abs(y3[1]._data[0]))
    try:
        E.compare("canary", "canary", y3, d, sc)
    except Stop:
        pass
    ctx.canary("site-data-corrupted", any(v["key"] == "value:canary" for v in sub.violations))
    sub.violations.clear()
    # 4. wrong number
    number_check(E, "canary", 1.0 + 1e-9, 1.0, 1.0, "canary")
    ctx.canary("number-off", any(v["key"] == "value:canary" for v in sub.violations))
    sub.violations.clear()
    # 5. to_matrix model: permuted matrix must be noticed
    full, bad = R.obs_matrix(y, E.loc)
    ctx.canary("to_matrix-model", bad is None and np.array_equal(full, R.obs_tensor(y, E.loc)) and
               not np.array_equal(np.roll(full, 1), R.obs_tensor(y, E.loc)))


def finalize(cov, merged):
    c = merged["counters"]
    cov["spaces_exercised"] = sorted(k[6:] for k in c if k.startswith("space:"))
    cov["ops_exercised"] = sorted(k[3:] for k in c if k.startswith("op:"))
    if len(cov["spaces_exercised"]) < len(R.SPACES):
        cov["inconclusive_reasons"].append(f"only {len(cov['spaces_exercised'])} of {len(R.SPACES)} local spaces exercised")
    share = c.get("factor_nonunit_operands", 0) / max(1, c.get("operands", 0))
    cov["factor_nonunit_share_of_operands"] = round(share, 3)
    if share < 0.3:
        cov["inconclusive_reasons"].append(f"only {share:.0%} of the operands of algebra nodes carried a non-unit factor (< 30 %)")
