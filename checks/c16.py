"""C16  Metadata caches are transparent.

(i) History monitor on every functools.lru_cache table of yastn (20 tables; proxies installed in every
    namespace where a table is bound, re-installed after set_cache_maxsize): on the first hit of every
    (table, key) the undecorated function is re-executed and deep-compared with the cached value; on every
    hit the digest of the returned value is compared with the digest taken at insertion (an entry altered
    after insertion, e.g. by a caller extending a cached list or writing into a cached mask, changes it);
    a recomputation after eviction/clear must reproduce the earlier digest.
(ii) Differential histories: the same program is executed cold (cache size 0), with size 1, warm after
    *adversarial twins* (the same block layout under Z2 / U1 / Z3, other fermionic flags, dropped or
    different fusion history) and with an injector that calls clear_cache()/set_cache_maxsize(k) at random
    cached-call boundaries; every intermediate and final tensor must be bit-identical to the cold run
    (data bytes, struct, slices, hfs, mfs, trans).
"""
from __future__ import annotations

import numpy as np

from vmon import dense as D
from vmon import gen_program as GP
from vmon import groups as G
from vmon import workloads as W
from vmon.bundle import Bundle

PROP = "C16"
RULE = ("case = (a) random program / other property's generator case / repository test file executed under the cache-hit monitor, or "
        "(b) twin scenario: one program over charges {0,1} replayed under 4-5 cache histories (cold, size 1, warm after Z2/U1/Z3 and "
        "fermionic twins with identical struct+slices, perturbed by injected clear/resize) and compared bit-for-bit; "
        "distinct = hash of program; non-trivial = at least one cache hit was checked in it")
ASSUMPTIONS = ["single-threaded BLAS: identical inputs give bit-identical outputs",
               "cached functions are pure functions of their arguments (that is what is being monitored)"]
MONITORS = ("cache",)

_B = {"bundle": None, "ctx": None}


def _report(key, what, witness=None):
    _B["ctx"].violation(key, what, witness)


def ensure(ctx):
    _B["ctx"] = ctx
    if _B["bundle"] is None:
        _B["bundle"] = Bundle(_report, cache=True).install()
    return _B["bundle"]


def layout(tier):
    seg = []
    if tier == "thorough":
        seg += [("suite", len(W.test_files())), ("prog", 4000), ("twin", 1500)]
        per = 200
    else:
        seg += [("prog", 300), ("twin", 120)]
        per = 25
    for name in W.foreign_modules():
        if tier != "thorough" and name not in W.TENSOR_LEVEL:
            continue
        seg.append(("foreign:" + name, per if name in W.TENSOR_LEVEL else max(4, per // 6)))
    return seg


def locate(tier, idx):
    for kind, n in layout(tier):
        if idx < n:
            return kind, idx
        idx -= n
    raise IndexError


def plan(tier):
    n = sum(k for _, k in layout(tier))
    if tier == "thorough":
        return {"cases": n, "shards": 16, "budget_s": 3300, "hard_timeout_s": 5400}
    return {"cases": n, "shards": 8, "budget_s": 300}


def floors(tier):
    if tier == "thorough":
        return {"cache_hits": 1000000, "first_hit_recomputations": 20000, "twin_collisions": 2000, "injected_perturbations": 2000,
                "histories_compared": 5000, "suite_files_run": 80}
    return {"cache_hits": 20000, "first_hit_recomputations": 1500, "twin_collisions": 100, "injected_perturbations": 100,
            "histories_compared": 400, "inplace_update_repeats": 200}


# ------------------------------------------------------------------ twin scenarios

def raw(t):
    import yastn
    if isinstance(t, yastn.Tensor):
        return ("T", t._data.tobytes(), str(t._data.dtype), t.struct, t.slices, t.hfs, t.mfs, tuple(t.trans))
    return ("S", complex(t))


def _twin_init(rng, nprng, fermionic):
    """Initial tensors over charges {0,1} whose blocks satisfy the U1 rule exactly -> valid for Z2 and Z3 too,
    with identical struct and slices under the three symmetries."""
    box = [(0,), (1,)]
    nleg = rng.randint(3, 4)
    uni = [D.gen_leg(rng, "U1", dmax=2, nsec=(1, 2), box=box) for _ in range(nleg)]
    init = []
    for _ in range(rng.randint(3, 4)):
        r = rng.randint(2, 4)
        legs = [rng.choice(uni) if rng.random() < 0.5 else rng.choice(uni).conj() for _ in range(r)]
        n = None
        for _ in range(10):
            key = tuple(rng.choice(l.ts) for l in legs)
            cand = G.add("U1", key, tuple(l.s for l in legs))
            if cand in ((0,), (1,)):
                n = cand
                break
        if n is None:
            continue
        init.append(D.gen_tensor(rng, nprng, "U1", legs=legs, n=n, dtype="float64", density=1.0, fermionic=fermionic))
    return init


def _as_sym(h, sym, fermionic):
    legs = [D.HLeg(sym, l.s, l.sectors) for l in h.legs]
    return D.HTensor(sym, legs, h.n, h.blocks, h.dtype, fermionic=fermionic)


def _mask_epilogue(prog, cfg):
    """Binary operations over hard-fused legs whose operands store different sector subsets: this is the path
    through _masks_hfs_intersection / _mask_nonzero / _embed_tensor (cached masks handed to callers)."""
    import yastn
    out = []
    for h in prog.init:
        keys = sorted(h.blocks)
        if len(keys) < 2 or h.rank < 2:
            continue
        hb, hc = h.with_present(keys[::2]), h.with_present(keys[1::2] + keys[:1])
        k = max(1, h.rank // 2)
        groups = (tuple(range(k)), tuple(range(k, h.rank)))
        fb = hb.to_yastn(cfg).fuse_legs(axes=groups, mode="hard")
        fc = hc.to_yastn(cfg).fuse_legs(axes=groups, mode="hard")
        for _ in range(2):
            r = [fb + fc, fc - fb, yastn.vdot(fb, fc), yastn.tensordot(fb, fc, axes=(0, 0), conj=(0, 1)),
                 yastn.tensordot(fc, fb, axes=((0, 1), (0, 1)), conj=(1, 0)), (fb + fc).unfuse_legs(axes=(0, 1))]
            out.extend(raw(x) for x in r)
    return out


def _path_epilogue(prog, cfg):
    """get_contraction_path twice for the same network (second call served by the two lru tables of oe_blocksparse),
    then contract_with_unroll along that path."""
    import yastn
    out = []
    for h in prog.init[:2]:
        if h.rank < 2 or not h.blocks:
            continue
        a = h.to_yastn(cfg)
        labs = list("abcdefgh"[:h.rank])
        args = [a, labs, a.conj(), [labs[0]] + [x.upper() for x in labs[1:-1]] + [labs[-1]],
                [x for x in labs[1:-1]] + [x.upper() for x in labs[1:-1]]]
        p1, _ = yastn.get_contraction_path(*args)
        p2, _ = yastn.get_contraction_path(*args)
        out.append(("P", tuple(map(tuple, p1)), tuple(map(tuple, p2))))
        out.append(raw(yastn.contract_with_unroll(*args, optimize=p2)))
        # one SlicedLeg object whose window is moved in place between calls: at each call the result must only depend on the
        # content of the argument at that moment (fresh object vs moved object bit-identical)
        leg = a.get_legs(0)
        t0, D0 = leg.t[0], leg.D[0]
        if D0 >= 2:
            moved = yastn.SlicedLeg(t=(t0,), D=(1,), slices={t0: slice(0, 1)})
            for lo in range(D0):
                moved.slices[t0] = slice(lo, lo + 1)
                fresh = yastn.SlicedLeg(t=(t0,), D=(1,), slices={t0: slice(lo, lo + 1)})
                r1 = yastn.contract_with_unroll(*args, optimize=p2, unroll={labs[0]: [moved]})
                r2 = yastn.contract_with_unroll(*args, optimize=p2, unroll={labs[0]: [fresh]})
                out.append(("W", raw(r1) == raw(r2)))
                out.append(raw(r1))
    return out


def _inplace_epilogue(prog, cfg):
    """An operation repeated on the SAME objects after one operand was updated in place through the public API
    (a[key] = block on the tensor or on the tensor its lazy transpose was taken from): the second result may depend only
    on what the operands hold at that moment.  The reference is the same operation on operands rebuilt block by block."""
    import yastn
    out = []

    def rebuild(x):
        y = yastn.Tensor(config=x.config, s=x.get_signature(), n=x.n, isdiag=x.isdiag, dtype=x.yastn_dtype)
        lg = x.get_legs()
        for key in _logical_keys(x):
            blk = np.array(x[key], copy=True)
            y.set_block(ts=key, Ds=blk.shape if not x.isdiag else blk.shape[0], val=blk)
        return y

    def _logical_keys(x):
        ns = x.config.sym.NSYM
        tr = x.trans
        keys = []
        for t in x.struct.t:
            native = [t[i * ns:(i + 1) * ns] for i in range(len(t) // ns)]
            keys.append(tuple(c for ax in tr for c in native[ax]) if len(tr) == len(native) else t)
        return keys

    for h in prog.init[:2]:
        if h.rank < 2 or not h.blocks:
            continue
        a = h.to_yastn(cfg)
        perm = tuple(range(1, h.rank)) + (0,)
        t = a.transpose(perm)                                  # lazy view of a
        c = h.permute(perm).map_values(lambda v: v * 0.5 + 0.25, h.dtype).to_yastn(cfg)        # same legs as t, plain state
        ops = (lambda: yastn.vdot(c, t), lambda: yastn.vdot(t, c), lambda: c + t, lambda: (t - c).norm(),
               lambda: yastn.tensordot(c, t, axes=(tuple(range(h.rank)), tuple(range(h.rank))), conj=(1, 0)), lambda: t.norm())
        first = [f() for f in ops]
        out.extend(raw(x) for x in first)
        for target in (t, a):
            key = _logical_keys(target)[0]
            blk = np.array(target[key], copy=True)
            target[key] = blk * -3.0 + 1.0                       # public in-place update
            again = [f() for f in ops]
            c2, t2 = rebuild(c), rebuild(t)
            ref = [yastn.vdot(c2, t2), yastn.vdot(t2, c2), c2 + t2, (t2 - c2).norm(),
                   yastn.tensordot(c2, t2, axes=(tuple(range(h.rank)), tuple(range(h.rank))), conj=(1, 0)), t2.norm()]
            same = all(np.allclose(np.asarray(x.to_numpy() if isinstance(x, yastn.Tensor) else x),
                                   np.asarray(y.to_numpy() if isinstance(y, yastn.Tensor) else y), rtol=1e-12, atol=1e-12)
                       for x, y in zip(again, ref))
            out.append(("I", same))
            out.extend(raw(x) for x in again)
    return out


def _run(prog, cfg, perturb_fusion=False):
    pool, _ = GP.execute(prog, cfg, observe_steps=False)
    out = [raw(x) for x in pool]
    out += _mask_epilogue(prog, cfg)
    out += _path_epilogue(prog, cfg)
    out += _inplace_epilogue(prog, cfg)
    if perturb_fusion:
        # fusion-history twins: same struct/slices, history dropped -> must not poison entries of the original
        import yastn
        for t in list(pool):
            if isinstance(t, yastn.Tensor) and not t.isdiag and any(hf.tree[0] > 1 for hf in t.hfs) and t.size:
                g = t.drop_leg_history()
                (g + g)
                yastn.tensordot(g, g, axes=(tuple(range(g.ndim)), tuple(range(g.ndim))), conj=(0, 1))
                g.transpose(tuple(range(g.ndim))[::-1]).consume_transpose()
    return out


_CUSTOM = {}


def _custom_syms():
    """Two user-defined cyclic groups written the way a user would (a family that only overrides the modulus, hence the
    same SYM_ID): used separately, never combined - each must get its own cached metadata."""
    if not _CUSTOM:
        import yastn

        class sym_ZN(yastn.sym.sym_abelian):
            SYM_ID = "ZN"
            NSYM = 1
            N = 2

            @classmethod
            def fuse(cls, charges, signatures, new_signature):
                return np.mod(new_signature * (charges.swapaxes(1, 2) @ signatures), cls.N)

        class sym_Z4(sym_ZN):
            N = 4

        class sym_Z5(sym_ZN):
            N = 5
        _CUSTOM.update({4: sym_Z4, 5: sym_Z5})
    return _CUSTOM


def _custom_run(N, blocks, kw, symcls=None):
    """fuse / unfuse / svd / tensordot where the group law (mod N; N = 0 for U1) decides the fused charges."""
    import yastn
    cfg = yastn.make_config(sym=symcls if symcls is not None else _custom_syms()[N], **kw)
    a = yastn.Tensor(config=cfg, s=(1, 1, -1, -1), n=0)
    b = yastn.Tensor(config=cfg, s=(1, 1, -1, -1), n=1)
    for ts, Ds, val in blocks:
        d = ts[0] + ts[1] - ts[2] - ts[3]
        if (d % N == 0) if N else (d == 0):
            a.set_block(ts=ts, Ds=Ds, val=val)
        if ((d - 1) % N == 0) if N else (d == 1):
            b.set_block(ts=ts, Ds=Ds, val=val)
    out = [raw(a)]
    f = a.fuse_legs(axes=((0, 1), (2, 3)), mode="hard")
    out.append(raw(f))
    out.append(raw(f.unfuse_legs(axes=(0, 1))))
    U, S, V = yastn.svd(a, axes=((0, 1), (2, 3)))
    out += [raw(S), raw(U @ S @ V)]
    out.append(raw(yastn.tensordot(a, a, axes=((2, 3), (0, 1)))))
    out.append(raw(yastn.tensordot(f, f.conj(), axes=(1, 1))))
    # charged operands: the total charge of the results is a sum taken by the group law of THIS symmetry
    if b.size:
        out.append(raw(yastn.tensordot(b, b, axes=((2, 3), (0, 1)))))
        out.append(raw(yastn.tensordot(b, a, axes=((2, 3), (0, 1))).conj()))
        out.append(complex(yastn.vdot(b, b)))
        out.append(raw(b.add_leg(axis=0, s=1).conj()))
    return out


def _fresh_family(style):
    """Newly created class objects (a user's module imported afresh): {N: class}; key 'parent' is the class they derive from."""
    import yastn
    if style == "abelian-root":
        class sym_ZN(yastn.sym.sym_abelian):
            SYM_ID = "ZNf"
            NSYM = 1
            N = 6          # the charges 0..3 used below are canonical for the root and for both children

            @classmethod
            def fuse(cls, charges, signatures, new_signature):
                return np.mod(new_signature * (charges.swapaxes(1, 2) @ signatures), cls.N)
        parent, parentN = sym_ZN, 6
    else:
        parent, parentN = yastn.sym.sym_U1, 0      # a user symmetry written by deriving from a built-in one

    def mk(n):
        class sym_Zn(parent):
            SYM_ID = f"Z{n}d"
            N = n

            @classmethod
            def fuse(cls, charges, signatures, new_signature):
                return np.mod(new_signature * (charges.swapaxes(1, 2) @ signatures), n)
        return sym_Zn
    return {"parent": parent, "parentN": parentN, 4: mk(4), 5: mk(5)}


def derived_sym_histories(ctx, rng, blocks, kw):
    """A symmetry class derived from another USABLE class: its results must not depend on whether the parent class (or a
    sibling) was used before it.  Cold reference and warm history use separately created, textually identical classes."""
    style = rng.choice(("builtin-parent", "builtin-parent", "abelian-root"))
    child = rng.choice((4, 5))
    fam_cold, fam_warm = _fresh_family(style), _fresh_family(style)
    cold = _custom_run(child, blocks, kw, symcls=fam_cold[child])
    _custom_run(fam_warm["parentN"], blocks, kw, symcls=fam_warm["parent"])
    if rng.random() < 0.5:
        _custom_run(9 - child, blocks, kw, symcls=fam_warm[9 - child])
    warm = _custom_run(child, blocks, kw, symcls=fam_warm[child])
    ctx.count("derived_symmetry_histories")
    ctx.count("histories_compared")
    if warm != cold:
        k = next((i for i, (x, y) in enumerate(zip(cold, warm)) if x != y), min(len(cold), len(warm)))
        ctx.violation("cache-history-dependence:derived-symmetry-class",
                      f"user-defined Z{child} class derived from {'yastn.sym.sym_U1' if style == 'builtin-parent' else 'a usable user class'}: "
                      f"result {k} of the same operations differs between a history where the child is used first and one where the parent class is used first")


def custom_sym_twins(ctx, rng, nprng, kw):
    import yastn
    Dl = {c: rng.randint(1, 2) for c in range(4)}
    blocks = []
    for ts in __import__("itertools").product(range(4), repeat=4):
        if rng.random() < 0.5:
            Ds = tuple(Dl[c] for c in ts)
            blocks.append((ts, Ds, nprng.standard_normal(Ds)))
    try:
        yastn.set_cache_maxsize(0)
        cold = {N: _custom_run(N, blocks, kw) for N in (4, 5)}
        yastn.set_cache_maxsize(1024)
        yastn.clear_cache()
        first, second = (4, 5) if rng.random() < 0.5 else (5, 4)
        _custom_run(first, blocks, kw)
        warm = _custom_run(second, blocks, kw)
    finally:
        yastn.set_cache_maxsize(1024)
    derived_sym_histories(ctx, rng, blocks, kw)
    ctx.count("custom_symmetry_twins")
    ctx.count("histories_compared")
    if warm != cold[second]:
        k = next(i for i, (x, y) in enumerate(zip(cold[second], warm)) if x != y)
        ctx.violation("cache-history-dependence:custom-symmetry-twin",
                      f"user-defined Z{second} tensor: result {k} of fuse/unfuse/svd/tensordot differs from the cold run after the same "
                      f"operations ran on its Z{first} twin (same struct and slices, same SYM_ID)")


def twin_case(ctx, idx):
    import yastn
    rng, nprng = ctx.rng(idx, "twin"), ctx.nprng(idx, "twin")
    b = ensure(ctx)
    main_sym = rng.choice(("Z2", "U1", "Z3"))
    ferm = rng.choice((False, True)) if main_sym != "Z3" else False
    init = _twin_init(rng, nprng, ferm)
    if len(init) < 2:
        from vmon.harness import CaseSkip
        raise CaseSkip
    policy = rng.choice(("fuse_to_matrix", "fuse_contracted", "no_fusion"))
    fusion = rng.choice(("hard", "meta"))
    kw = {"tensordot_policy": policy, "default_fusion": fusion}
    custom_sym_twins(ctx, ctx.rng(idx, "custom"), ctx.nprng(idx, "custom"), kw)
    seedstate = rng.getstate()
    progs = {}
    try:
        yastn.set_cache_maxsize(1024)
        yastn.clear_cache()
        for sym in ("Z2", "U1", "Z3"):
            f = ferm if sym != "Z3" else False
            r2 = type(rng)(0)
            r2.setstate(seedstate)          # identical proposal stream for every twin
            cfg = D.make_cfg(sym, f, **kw)
            p = GP.Program(sym, f, [_as_sym(h, sym, f) for h in init], [], "float64")
            pool = GP.initial_pool(p, cfg)
            tries = 0
            while len(p.steps) < 14 and tries < 150:
                tries += 1
                step = GP.propose(pool, r2, f)
                if step is None or step[0] == "to_dict":
                    continue
                try:
                    new = GP.apply_step(pool, step, cfg)
                except Exception as e:
                    if type(e).__name__ != "YastnError":
                        raise
                    continue
                if any(isinstance(x, yastn.Tensor) and not GP._small(x) for x in new):
                    continue
                p.steps.append(step)
                pool.extend(new)
            progs[sym] = (p, cfg)
        main, cfg = progs[main_sym]
        others = [progs[s] for s in progs if s != main_sym]
        # fermionic-flag twin of the main program (same symmetry, other statistics)
        if main_sym != "Z3":
            fl = D.make_cfg(main_sym, not ferm, **kw)
            others.append((GP.Program(main_sym, not ferm, [_as_sym(h, main_sym, not ferm) for h in init],
                                      [s for s in main.steps], "float64"), fl))
        # --- history A: cold
        yastn.set_cache_maxsize(0)
        ref = _run(main, cfg)
        histories = {}
        # --- history B: size 1, twins first
        yastn.set_cache_maxsize(1)
        for p, c in others:
            _try(p, c, ctx)
        histories["size1-after-twins"] = _run(main, cfg)
        # --- history C: default size, twins first (+ fusion-history twins), then main twice
        yastn.set_cache_maxsize(1024)
        for p, c in others:
            _try(p, c, ctx, perturb_fusion=True)
        ctx.count("twin_collisions", len(others))
        histories["warm-after-twins"] = _run(main, cfg, perturb_fusion=True)
        histories["warm-all-hits"] = _run(main, cfg)
        # --- history D: injected clear/resize at cached-call boundaries
        inj_rng = ctx.rng(idx, "inject")
        count = [0]

        def injector(table):
            if inj_rng.random() < 0.15:
                count[0] += 1
                if inj_rng.random() < 0.5:
                    yastn.clear_cache()
                else:
                    yastn.set_cache_maxsize(inj_rng.choice((0, 1, 2, 3, 1024)))
        b.cm.injector = injector
        try:
            histories["perturbed"] = _run(main, cfg)
        finally:
            b.cm.injector = None
        ctx.count("injected_perturbations", count[0])
        for k, x in enumerate(ref):
            if x[0] == "W" and not x[1]:
                ctx.violation("argument-state-dependence:moved-SlicedLeg",
                              "contract_with_unroll gave different results for a SlicedLeg moved in place and a fresh SlicedLeg of equal content")
                break
        for hname, hres in [("reference", ref)] + list(histories.items()):
            if any(x[0] == "I" for x in hres):
                ctx.count("inplace_update_repeats", sum(1 for x in hres if x[0] == "I"))
            if any(x[0] == "I" and not x[1] for x in hres):
                ctx.violation("argument-state-dependence:operand-updated-in-place",
                              f"an operation repeated after a public in-place update (a[key] = block) of an operand or of the tensor its lazy "
                              f"transpose views did not reflect the update (history {hname}); reference: the same operation on operands rebuilt block by block")
                break
        for name, res in histories.items():
            ctx.count("histories_compared")
            if len(res) != len(ref):
                ctx.violation(f"cache-history-dependence:{name}", f"program produced {len(res)} results instead of {len(ref)} under history {name}")
                continue
            for k, (x, y) in enumerate(zip(ref, res)):
                if x != y:
                    what = "data" if x[0] == "T" and y[0] == "T" and x[3:] == y[3:] else "structure"
                    step = "init" if k < len(main.init) else "program step or mask epilogue"
                    ctx.violation(f"cache-history-dependence:{name}",
                                  f"result {k} ({what}) of the program differs from the cold run under history '{name}' (step {step!r:.200})",
                                  {"program": main.desc(), "history": name, "entry": k})
                    break
    finally:
        b.cm.injector = None
        yastn.set_cache_maxsize(1024)
    for s in main.steps:
        ctx.count("step:" + s[0])
    return main


def _try(p, cfg, ctx, perturb_fusion=False):
    """Twin programs only warm the caches; a twin step that is not valid under the twin's group law is skipped."""
    try:
        _run(p, cfg, perturb_fusion)
    except Exception as e:
        if type(e).__name__ != "YastnError":
            raise
        ctx.count("twin_program_partially_rejected")


def run_case(ctx, idx):
    b = ensure(ctx)
    before = sum(b.cm.hits.values())
    kind, k = locate(ctx.tier, idx)
    if kind == "prog":
        prog, pool, cfg = W.program_case(ctx, k)
        # run it again: the second execution is served from the caches
        GP.execute(prog, cfg, observe_steps=False)
        ctx.case(prog.sig(), sum(b.cm.hits.values()) > before, {"kind": "program", **prog.desc()} if k < 2 else None)
    elif kind == "twin":
        main = twin_case(ctx, idx)
        ctx.case(("twin",) + main.sig(), sum(b.cm.hits.values()) > before, {"kind": "twin-scenario", **main.desc()} if k < 2 else None)
    elif kind.startswith("foreign:"):
        W.foreign_case(ctx, kind.split(":")[1], k)
        ctx.case(("foreign", kind, k), sum(b.cm.hits.values()) > before)
    else:
        f = W.test_files()[k]
        t0 = ctx.counters.get("cache_hits", 0)
        W.suite_case(ctx, f, MONITORS)
        ctx.case(("suite", f), ctx.counters.get("cache_hits", 0) > t0, {"kind": "suite-file", "file": f})


def end_shard(ctx):
    b = _B["bundle"]
    if b is not None:
        b.flush(ctx)


def canaries(ctx):
    """(1) a cached entry altered after insertion, (2) a cached function that is not a function of its key,
    (3) a result that depends on cache history - each must be caught."""
    import functools
    from vmon.cachemon import CacheMonitor, _Proxy
    fired = []
    mon = CacheMonitor(lambda k, w, x=None: fired.append(k))
    state = {"n": 0}

    @functools.lru_cache(maxsize=8)
    def f(x):
        return {"a": np.arange(3) + x, "b": [1, 2]}
    p = _Proxy(mon, f, "canary.f")
    v = p(1)
    v["b"].append(3)        # caller mutates cached value
    p(1)
    ctx.canary("entry-mutated", any(k.startswith("cache-entry-mutated") for k in fired))
    fired.clear()

    @functools.lru_cache(maxsize=8)
    def g(x):
        state["n"] += 1
        return (x, state["n"])     # depends on hidden state: fresh computation differs from cached value
    q = _Proxy(mon, g, "canary.g")
    q(5)
    q(5)
    ctx.canary("hit-differs-from-fresh", any(k.startswith("cache-hit-differs-from-fresh") for k in fired))
    fired.clear()
    g.cache_clear()
    q(5)
    ctx.canary("recompute-differs", any(k.startswith("cache-recompute-differs") for k in fired))
    # raw comparison distinguishes a one-bit data change and a structure change
    import yastn
    cfg = yastn.make_config(sym="Z2")
    l = yastn.Leg(cfg, s=1, t=(0, 1), D=(1, 2))
    a = yastn.rand(cfg, legs=[l, l.conj()])
    c = a.copy()
    c._data[0] = np.nextafter(c._data[0], 10)
    ctx.canary("raw-bit-flip", raw(a) != raw(c))
    ctx.canary("raw-trans", raw(a) != raw(a.transpose((1, 0))))


def finalize(cov, merged):
    c = merged["counters"]
    hits = cov.get("cache_hits_by_table", {})
    cov["tables_hit"] = sorted(hits)
    cov["tables_monitored"] = 20
    need = 20 if cov.get("reach_floors", {}).get("suite_files_run") else 15
    if len(hits) < need:
        cov["inconclusive_reasons"].append(f"only {len(hits)} cache tables were hit (need {need})")
    if c.get("monitor_errors", 0):
        cov["inconclusive_reasons"].append("monitor raised internally")
