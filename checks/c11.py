"""C11  PEPS gates and their application act exactly as the dense operators.

Reference-model monitor.  Four case kinds, interleaved over the case index:

  gate     every predefined gate of yastn/tn/fpeps/gates.py, random real / imaginary / complex parameters:
           the two gate tensors contracted over their auxiliary leg (block data only) must equal
           scipy.linalg.expm(-step * H_JW) with H_JW built from explicit Jordan-Wigner matrices (vmon.pepsref).
  circuit  a finite PEPS (product vectors / product purification / random PEPS with or without ancilla) on a lattice
           of <= 6 sites (obc strips, 2x2, 2x3, 3x2, cylinders); to_tensor() of product states must be the Kronecker
           product; then 2-5 gates (local, nearest-neighbour in every orientation incl. the cylinder seam, distant
           two-site gates with identity fill-in, MPO / tensor-list gates along random site paths): after every
           apply_gate_ the dense state from to_tensor() must equal  dense gate (with explicit strings) x dense state.
  dpt      DoublePepsTensor.tensordot (lazy) vs tensordot with fuse_layers() for every corner pair, operand order,
           allowed transpose, with operator / charge-swap decorations, fused and plain physical legs, bra != ket.
  add      Peps.__add__ / fpeps.add(amplitudes) vs the sum of the dense states.
"""
from __future__ import annotations

import numpy as np
import scipy.linalg as sla

from vmon import pepsgen as PG
from vmon import pepsref as R
from vmon.harness import CaseSkip

PROP = "C11"
RULE = ("case = kind (gate / circuit / dpt / add) x operator family (16 = spinless, spinful, t-J fermions, spin-1/2, "
        "spin-1 in every symmetry) x structure: gate kind + parameter type; lattice (dims, boundary) + state kind "
        "(vec / purif / rand-anc / rand-full / rand-plain) + per step (gate source, number of sites, bond orientations, "
        "seam, rank); corner pair + operand order + transpose + decorations; number of summands + amplitudes. "
        "distinct = hash of that structure (no values); non-trivial = the compared dense object has >= 2 non-zero "
        "elements and the state / result is not identically zero")
ASSUMPTIONS = ["NumPy/SciPy dense linear algebra (expm, tensordot) on <= 4096-dimensional objects is the truth",
               "to_numpy(legs=...) of gate tensors / to_tensor() is the observation function; it is validated in-run "
               "against Kronecker products of the local vectors for every product state",
               "local operator tensors passed to the gate constructors define the local matrices (ops.X().to_numpy)",
               "the Heisenberg gate is judged against J*(Sz Sz + (S+ S- + S- S+)/2) as in tests/peps/test_gates.py "
               "(the docstring writes the same operator with differently normalised S+-)"]

EPS = 2.3e-16
GATE_KINDS = ("hopping", "Ising", "Heisenberg", "tJ", "Coulomb", "occupation", "field", "nn_exp_fkron", "nn_exp_raw",
              "local_exp", "decompose")
DIRS = ("lr", "rl", "tb", "bt")
AT = ((0, 1, 2, 3), (1, 2, 3, 0), (2, 3, 0, 1), (3, 0, 1, 2), (0, 3, 2, 1), (1, 0, 3, 2), (2, 1, 0, 3), (3, 2, 1, 0))
CORNER = {(0, 1): "tl", (1, 2): "bl", (2, 3): "br", (0, 3): "tr"}


def plan(tier):
    if tier == "thorough":
        return {"cases": 40000, "shards": 16, "budget_s": 2400}     # nominal ~5 min wall; soft deadline generous (shared machine)
    return {"cases": 2400, "shards": 8, "budget_s": 300}            # nominal ~20 s wall


def floors(tier):
    k = 10 if tier == "thorough" else 1
    f = {"evaluations": 1200 * k, "gate_checks": 200 * k, "circuits": 150 * k, "gate_applications": 300 * k,
         "product_state_checks": 60 * k, "purification_circuits": 20 * k, "ancilla_free_circuits": 10 * k,
         "apply:local": 20 * k, "apply:nn": 80 * k, "apply:distant": 10 * k, "apply:mpo": 30 * k, "apply:seam": 5 * k,
         "apply:mpo_object": 10 * k, "order_sensitive_applications": 40 * k,
         "dpt_comparisons": 400 * k, "dpt_nonzero_results": 200 * k, "dpt_with_operator": 40 * k,
         "dpt_with_swaps": 40 * k, "add_checks": 100 * k, "add_with_amplitudes": 30 * k, "fermionic_cases": 200 * k}
    f.update({"circuits_with_scaled_site_tensors": 30 * k, "scaled_gates": 40 * k, "zero_gates": 5 * k, "circuits_on_1x1": 3 * k,
              "apply_src:identity": 3 * k, "add_with_extreme_amplitudes": 15 * k, "odd_mpo_probes": 10 * k})
    for gk in GATE_KINDS:
        f["gate:" + gk] = 6 * k
    for pk in ("real", "imag", "complex"):
        f["gate_param:" + pk] = 20 * k
    for d in DIRS:
        f["dir:" + d] = 20 * k
    for c in CORNER.values():
        f["dpt_corner:" + c] = 20 * k
        f["dpt_corner_reverse:" + c] = 20 * k
    return f


# ------------------------------------------------------------------------------------------------ judging helpers

def nontrivial(x):
    return int(np.count_nonzero(x)) >= 2


def state_scale(psi):
    """product of the norms of the site tensors: the natural size of contraction round-off in to_tensor()."""
    s = 1.0
    for site in psi.sites():
        s *= float(psi[site].norm())
    return s


def judge(ctx, margin_name, key, got, exp, tol, what, witness=None):
    """element-wise comparison of two dense arrays; returns True when inside tolerance."""
    got, exp = np.asarray(got), np.asarray(exp)
    if got.shape != exp.shape:
        ctx.violation(key + ":shape", f"{what}: shape {got.shape} expected {exp.shape}", witness)
        return False
    err = float(np.max(np.abs(got - exp))) if exp.size else 0.0
    if not ctx.margin(margin_name, err, tol):
        w = dict(witness or {})
        w.update(error=err, allowed=tol, got=got, expected=exp)
        ctx.violation(key, f"{what}: max |difference| {err:.3e} > allowed {tol:.3e}", w)
        return False
    return True


# ------------------------------------------------------------------------------------------------ kind: gate

def two_site(F, terms):
    return R.full_matrix(F.loc, 2, terms)


def fam_for_gate(rng, gk):
    if gk == "hopping":
        return PG.fam(*rng.choice(PG.FERMIONIC))
    if gk in ("Ising", "field"):
        return PG.fam(*rng.choice([f for f in PG.FAMILIES if f[0] == "Spin12"]))
    if gk == "Heisenberg":
        return PG.fam(*rng.choice([f for f in PG.FAMILIES if f[0] in ("Spin12", "Spin1", "SpinfulFermions", "SpinfulFermions_tJ")]))
    if gk == "tJ":
        return PG.fam(*rng.choice([f for f in PG.FAMILIES if f[0] in ("SpinfulFermions", "SpinfulFermions_tJ")]))
    if gk == "Coulomb":
        return PG.fam(*rng.choice([f for f in PG.FAMILIES if f[0] == "SpinfulFermions"]))
    if gk == "occupation":
        return PG.fam(*rng.choice(PG.FERMIONIC))
    return PG.fam(*rng.choice(PG.FAMILIES))


def hermitian_two_site_fkron(F, rng):
    """H = sum_j a_j A_j(0) B_j(1) + h.c. + local terms, via yastn.fkron;  the same sum with explicit JW matrices."""
    import yastn
    pairs = F.pairs_zero_charge()
    H, Hd = None, np.zeros((F.d ** 2, F.d ** 2), dtype=np.complex128)
    nt = rng.randint(1, 4)
    for _ in range(nt):
        if pairs and rng.random() < 0.7:
            a, b = rng.choice(pairs)
        else:
            a, b = rng.choice(F.even), rng.choice(F.even)
        amp, _k = PG.rand_scalar(rng)
        A, B = F.cat[a], F.cat[b]
        if rng.random() < 0.5:                     # written as A_0 B_1
            term = amp * yastn.fkron(A, B, sites=(0, 1))
            hc = np.conj(amp) * yastn.fkron(B.conj().transpose(), A.conj().transpose(), sites=(1, 0))
            td = amp * two_site(F, [(F.mat[a], 0), (F.mat[b], 1)])
        else:                                       # written as A_1 B_0  (site 1 operator written first)
            term = amp * yastn.fkron(A, B, sites=(1, 0))
            hc = np.conj(amp) * yastn.fkron(B.conj().transpose(), A.conj().transpose(), sites=(0, 1))
            td = amp * two_site(F, [(F.mat[a], 1), (F.mat[b], 0)])
        H = term + hc if H is None else H + term + hc
        Hd = Hd + td + td.conj().T
    return H, Hd, nt


def hermitian_raw(F, nprng, K):
    """random Hermitian charge-conserving K-site operator as dense chain tensor and matrix."""
    d = F.d
    M = PG.rand_array(nprng, (d ** K, d ** K))
    M = (M + M.conj().T) / 2
    T = R.matrix_chain(M, d, K) * F.loc.charge_mask(K)
    return T, R.chain_matrix(T)


def case_gate(ctx, idx, rng, nprng):
    import yastn
    import yastn.tn.fpeps as fpeps
    gates = fpeps.gates
    gk = GATE_KINDS[(idx // 3) % len(GATE_KINDS)]
    F = fam_for_gate(rng, gk)
    o, m, loc, d = F.cat, F.mat, F.loc, F.d
    I = o["I"]
    step, pk = PG.rand_scalar(rng, lo=0.05, hi=1.2)
    if rng.random() < 0.06:
        step, pk = rng.choice((0.0, 1e-9, 1e-9j)), "real"
    bond = ((0, 0), (0, 1)) if rng.random() < 0.5 else None
    par = {"step": step}
    nn = True
    Hn = None
    if gk == "hopping":
        sp = rng.choice("ud") if F.cls != "SpinlessFermions" else ""
        t, pk2 = PG.rand_scalar(rng, lo=0.05, hi=1.2)
        pk = pk if rng.random() < 0.5 else pk2
        c, cp = "c" + sp, "cp" + sp
        gate = gates.gate_nn_hopping(t, step, I, o[c], o[cp], bond)
        H = -t * (two_site(F, [(m[cp], 0), (m[c], 1)]) + two_site(F, [(m[cp], 1), (m[c], 0)]))
        par.update(t=t, spin=sp)
    elif gk == "Ising":
        X = rng.choice([k for k in ("x", "y", "z") if k in o])
        J, pk2 = PG.rand_scalar(rng, lo=0.05, hi=1.2)
        pk = pk if rng.random() < 0.5 else pk2
        gate = gates.gate_nn_Ising(J, step, I, o[X], bond)
        H = J * two_site(F, [(m[X], 0), (m[X], 1)])
        par.update(J=J, X=X)
    elif gk == "Heisenberg":
        J = rng.uniform(-1.5, 1.5)
        sz, sp_, sm_ = ("sz", "sp", "sm") if F.cls in ("Spin12", "Spin1") else ("Sz", "Sp", "Sm")
        gate = gates.gate_nn_Heisenberg(J, step, I, o[sz], o[sp_], o[sm_], bond)
        H = J * (two_site(F, [(m[sz], 0), (m[sz], 1)]) + 0.5 * two_site(F, [(m[sp_], 0), (m[sm_], 1)])
                 + 0.5 * two_site(F, [(m[sm_], 0), (m[sp_], 1)]))
        par.update(J=J)
    elif gk == "tJ":
        J, tu, td, a, b, c_, d_ = (rng.uniform(-1.2, 1.2) for _ in range(7))
        gate = gates.gate_nn_tJ(J, tu, td, a, b, c_, d_, step, I, o["cu"], o["cpu"], o["cd"], o["cpd"], bond)
        nu, nd = m["cpu"] @ m["cu"], m["cpd"] @ m["cd"]
        Sp, Sm, Sz, ntot = m["cpu"] @ m["cd"], m["cpd"] @ m["cu"], (nu - nd) / 2, nu + nd
        H = -tu * (two_site(F, [(m["cpu"], 0), (m["cu"], 1)]) + two_site(F, [(m["cpu"], 1), (m["cu"], 0)])) \
            - td * (two_site(F, [(m["cpd"], 0), (m["cd"], 1)]) + two_site(F, [(m["cpd"], 1), (m["cd"], 0)])) \
            + J * (two_site(F, [(Sz, 0), (Sz, 1)]) + 0.5 * two_site(F, [(Sp, 0), (Sm, 1)])
                   + 0.5 * two_site(F, [(Sm, 0), (Sp, 1)]) - 0.25 * two_site(F, [(ntot, 0), (ntot, 1)])) \
            - a * two_site(F, [(nu, 0)]) - b * two_site(F, [(nu, 1)]) - c_ * two_site(F, [(nd, 0)]) - d_ * two_site(F, [(nd, 1)])
        par.update(J=J, tu=tu, td=td, mu=[a, b, c_, d_])
    elif gk == "Coulomb":
        nn = False
        (mu_u, _a), (mu_d, _b), (U, _c) = (PG.rand_scalar(rng, lo=0.05, hi=1.2) for _ in range(3))
        gate = gates.gate_local_Coulomb(mu_u, mu_d, U, step, I, o["nu"], o["nd"], (0, 0) if bond else None)
        Id = np.eye(d)
        H = U * (m["nu"] - Id / 2) @ (m["nd"] - Id / 2) - mu_u * m["nu"] - mu_d * m["nd"] - (U / 4) * Id
        par.update(mu_up=mu_u, mu_dn=mu_d, U=U)
    elif gk == "occupation":
        nn = False
        nm = "n" if F.cls == "SpinlessFermions" else rng.choice(("nu", "nd"))
        mu, pk2 = PG.rand_scalar(rng, lo=0.05, hi=1.2)
        pk = pk if rng.random() < 0.5 else pk2
        gate = gates.gate_local_occupation(mu, step, I, o[nm], (0, 0) if bond else None)
        H = -mu * m[nm]
        par.update(mu=mu, n=nm)
    elif gk == "field":
        nn = False
        X = rng.choice([k for k in ("x", "y", "z") if k in o and F.charge_of(k) == loc.zero])   # I and X must add
        h, pk2 = PG.rand_scalar(rng, lo=0.05, hi=1.2)
        pk = pk if rng.random() < 0.5 else pk2
        gate = gates.gate_local_field(h, step, I, o[X], (0, 0) if bond else None)
        H = -h * m[X]
        par.update(h=h, X=X)
    elif gk == "nn_exp_fkron":
        Hy, H, nt = hermitian_two_site_fkron(F, rng)
        gate = gates.gate_nn_exp(step, I, Hy, bond)
        par.update(terms=nt)
    elif gk == "nn_exp_raw":
        T, H = hermitian_raw(F, nprng, 2)
        legs = [loc.leg, loc.leg.conj(), loc.leg, loc.leg.conj()]
        if rng.random() < 0.3:                       # missing blocks: kill one charge sector of site 0
            t0 = rng.choice(loc.sectors)[0]
            keep = np.array([c != t0 for c in loc.charges], dtype=float)
            T = T * keep.reshape(d, 1, 1, 1) * keep.reshape(1, d, 1, 1)
            H = R.chain_matrix(T)
            par.update(missing_sector=list(t0))
        gate = gates.gate_nn_exp(step, I, R.from_dense(F.cfg, T, legs), bond)
    elif gk == "local_exp":
        nn = False
        T, H = hermitian_raw(F, nprng, 1)
        if rng.random() < 0.3:
            t0 = rng.choice(loc.sectors)[0]
            keep = np.array([c != t0 for c in loc.charges], dtype=float)
            T = T * keep.reshape(d, 1) * keep.reshape(1, d)
            H = T
            par.update(missing_sector=list(t0))
        gate = gates.gate_local_exp(step, I, R.from_dense(F.cfg, T, [loc.leg, loc.leg.conj()]), (0, 0) if bond else None)
    else:  # decompose_nn_gate on an arbitrary (non-Hermitian) charge-conserving two-site operator
        rank = rng.choice((None, None, 1, 2, 3))
        T = PG.rand_chain_operator(F, rng, nprng, 2, rank)
        legs = [loc.leg, loc.leg.conj(), loc.leg, loc.leg.conj()]
        gate = gates.decompose_nn_gate(R.from_dense(F.cfg, T, legs), bond)
        Hn = R.chain_matrix(T)                      # expected matrix itself
        par = {"rank": rank}
        pk = "complex"
    # ---- observe
    want_sites = (bond if nn else ((0, 0),)) if bond else (None if nn else (None,))
    if len(gate.G) != (2 if nn else 1):
        ctx.violation("gate-structure:" + gk, f"{gk}: gate has {len(gate.G)} tensors")
        return
    if gate.sites != want_sites:
        ctx.violation("gate-structure:" + gk, f"{gk}: gate.sites={gate.sites!r} expected {want_sites!r}")
    got = R.chain_matrix(R.gate_chain_dense(loc, gate.G)) if nn else np.asarray(R.gate_chain_dense(loc, gate.G))
    if Hn is not None:
        exp = Hn
        scale = max(1.0, float(np.abs(exp).max()))
    else:
        exp = sla.expm(-step * H)
        scale = max(1.0, float(np.abs(exp).max())) * (1.0 + abs(step) * float(np.linalg.norm(H, 2)))
    tol = 20000 * EPS * scale
    judge(ctx, "gate:" + gk, "value:gate:" + gk, got, exp, tol, f"{gk} gate ({F.cls},{F.sym}) vs expm(-step*H_JW)",
          {"family": [F.cls, F.sym], "params": par})
    ctx.count("gate_checks")
    ctx.count("gate:" + gk)
    ctx.count("gate_param:" + pk)
    if F.fermionic:
        ctx.count("fermionic_cases")
    ctx.case(("gate", gk, F.cls, F.sym, pk, bond is None, tuple(sorted(k for k in par if k != "step"))), nontrivial(exp),
             {"kind": "gate", "gate": gk, "family": [F.cls, F.sym], "param_type": pk, "params": par})


# ------------------------------------------------------------------------------------------------ kind: circuit

CIRCUIT_LATTICES = PG.LATTICES + (((1, 1), "obc"),)


def pick_family_lattice(rng, kinds=("vec", "purif", "randa", "randf", "randp"), lattices=PG.LATTICES):
    """draw (family, lattice, state kind) with a dense state of <= 4096 amplitudes."""
    for _ in range(200):
        F = PG.fam(*(rng.choice(PG.FAMILIES) if rng.random() < 0.6 else rng.choice(PG.FERMIONIC)))
        sk = rng.choice(kinds)
        dims, bd = rng.choice(lattices)
        N = dims[0] * dims[1]
        if N <= PG.max_sites(F, sk in ("purif", "randf")):
            return F, dims, bd, sk
    raise CaseSkip


def make_state(F, rng, nprng, g, sk):
    """-> psi, frame, expected dense (or None)"""
    if sk == "vec":
        psi, la = PG.product_vec_state(F, rng, nprng, g)
        fr = R.PepsFrame(F.loc, psi)
        exp = R.kron_product([la[s] for s in fr.sites])
    elif sk == "purif":
        psi, la = PG.product_purif_state(F, rng, nprng, g)
        fr = R.PepsFrame(F.loc, psi)
        exp = R.kron_product([la[s] for s in fr.sites])
    else:
        anc = {"randa": "charged", "randf": "full", "randp": None}[sk]
        psi = PG.random_peps(F, rng, g, anc=anc, nsec=rng.choice((2, 3)), dmax=rng.choice((1, 1, 2)),
                             dtype=rng.choice(("complex128", "float64")))
        fr = R.PepsFrame(F.loc, psi)
        exp = None
    return psi, fr, exp


def draw_gate(F, rng, nprng, g, fr, psi):
    """-> dict(gate, M, positions, label, dirs, path, aux) or None"""
    import yastn.tn.fpeps as fpeps
    import yastn.tn.mps as mps
    loc, o = F.loc, F.cat
    maxK = min(fr.N, 4 if F.d == 2 else 3)
    K = rng.choice([k for k in (1, 2, 2, 2, 2, 3, 3, 4) if k <= maxK])
    path = PG.rand_path(rng, g, K)
    if path is None:
        return None
    path = [tuple(s) for s in path]
    src = None
    if K == 1:
        src = rng.choice(("pre_local", "raw", "raw", "mpo1", "identity"))
        if src == "pre_local":
            step, _ = PG.rand_scalar(rng)
            mu, _ = PG.rand_scalar(rng)
            nm = rng.choice(F.even[:-1])
            if nm in ("n", "nu", "nd"):
                gate = fpeps.gates.gate_local_occupation(mu, step, o["I"], o[nm], path[0])
            else:
                H = R.from_dense(F.cfg, (F.mat[nm] + F.mat[nm].conj().T) / 2, [loc.leg, loc.leg.conj()])
                gate = fpeps.gates.gate_local_exp(step * mu, o["I"], H, path[0])
            Gs = list(gate.G)
            M = R.gate_chain_dense(loc, Gs)
        else:
            M = PG.rand_chain_operator(F, rng, nprng, 1) if src != "identity" else np.eye(F.d, dtype=np.complex128)
            Gs = [o["I"]] if src == "identity" else PG.split_chain(F, M)
            if src == "mpo1":
                gate = fpeps.Gate(G=PG.chain_to_mpo(F, Gs), sites=(path[0],))
            else:
                gate = fpeps.Gate(G=tuple(Gs), sites=(path[0],))
        return dict(gate=gate, M=M, positions=[fr.position(path[0])], label="local", src=src, dirs=[], path=path, aux=[])
    distant = K >= 3 and rng.random() < 0.35
    Kop = 2 if distant else K
    choices = ["raw", "raw_lowrank", "mpo_object", "generate_mpo"]
    if Kop == 2:
        choices += ["predefined", "predefined"]
    src = rng.choice(choices)
    sites = tuple(path)
    if src == "predefined":
        step, _ = PG.rand_scalar(rng, lo=0.1, hi=0.9)
        if F.fermionic:
            sp = rng.choice("ud") if F.cls != "SpinlessFermions" else ""
            t, _ = PG.rand_scalar(rng, lo=0.1, hi=0.9)
            gate = fpeps.gates.gate_nn_hopping(t, step, o["I"], o["c" + sp], o["cp" + sp], sites)
        elif F.cls == "Spin12" and F.sym != "U1" and rng.random() < 0.5:
            J, _ = PG.rand_scalar(rng, lo=0.1, hi=0.9)
            gate = fpeps.gates.gate_nn_Ising(J, step, o["I"], o[rng.choice(("x", "y", "z"))], sites)
        else:
            gate = fpeps.gates.gate_nn_Heisenberg(rng.uniform(-1, 1), step, o["I"], o["sz"], o["sp"], o["sm"], sites)
        Gs = list(gate.G)
        M = R.gate_chain_dense(loc, Gs)
    elif src == "generate_mpo":
        # sum of a few products of catalogue operators on the chain 0..Kop-1 (positions in arbitrary order)
        # (generate_mpo takes its dtype from the amplitudes only -> keep complex operators such as sigma_y out of it)
        pairs = [(a, b) for a, b in F.pairs_zero_charge() if not (np.iscomplexobj(F.mat[a]) or np.iscomplexobj(F.mat[b]))]
        terms, nterms = [], rng.randint(1, 3)
        for _ in range(nterms):
            amp, _ = PG.rand_scalar(rng)
            if pairs and Kop >= 2 and rng.random() < 0.75:
                a, b = rng.choice(pairs)
                p = rng.sample(range(Kop), 2)
                terms.append(mps.Hterm(amp, p, [o[a], o[b]]))
            else:
                p = rng.randrange(Kop)
                terms.append(mps.Hterm(amp, [p], [o[rng.choice(F.even)]]))
        if rng.random() < 0.7:
            terms.append(mps.Hterm(rng.uniform(0.5, 1.5), [0], [o["I"]]))
        op = mps.generate_mpo(o["I"], terms, N=Kop)
        if rng.random() < 0.5:                      # non-unit MPO factor (norm kept outside of the tensors)
            op = PG.rand_scalar(rng, lo=0.3, hi=1.8)[0] * op
        M = R.mpo_chain_dense(loc, op)
        gate = fpeps.Gate(G=op, sites=sites)
        Gs = None
    else:
        rank = None if src in ("raw", "mpo_object") and F.d ** (2 * (Kop // 2)) <= 16 else rng.choice((1, 2, 2, 3))
        if src == "raw_lowrank":
            rank = rng.choice((1, 2, 2, 3))
        M = PG.rand_chain_operator(F, rng, nprng, Kop, rank)
        if rank is not None and rng.random() < 0.7:      # drop the exactly-zero singular values: small auxiliary legs
            Gs = PG.split_chain(F, M, tol=1e-12)
            M = R.gate_chain_dense(loc, Gs)
        else:
            Gs = PG.split_chain(F, M)
        if src == "mpo_object":
            op = PG.chain_to_mpo(F, Gs)
            if rng.random() < 0.5:
                op = PG.rand_scalar(rng, lo=0.3, hi=1.8)[0] * op
                M = R.mpo_chain_dense(loc, op)
            gate = fpeps.Gate(G=op, sites=sites)
        else:
            gate = fpeps.Gate(G=tuple(Gs) if rng.random() < 0.5 else list(Gs), sites=sites)
    if Gs is not None:
        aux = PG.gate_aux_dims(Gs, len(path))
    else:
        aux = [max(op[n].get_shape(axes=2), 1) for n in range(Kop - 1)]
        if Kop == 2 and len(path) > 2:
            aux = aux * (len(path) - 1)
    positions = [fr.position(path[0]), fr.position(path[-1])] if distant else [fr.position(s) for s in path]
    label = "distant" if distant else ("nn" if K == 2 else "mpo")
    return dict(gate=gate, M=M, positions=positions, label=label, src=src, dirs=PG.path_dirs(g, path), path=path, aux=aux)


def order_sensitive(F, M, positions):
    """does the fermionic order matter for this gate? (some matrix unit carries a fermionic charge on >= 1 site)"""
    if not F.loc.any_fermionic or len(positions) < 2:
        return False
    sg = R.chain_signs(F.loc, len(positions))
    return bool(np.any((sg < 0) & (np.asarray(M) != 0))) or positions != sorted(positions)


def big_scalar(rng):
    """extreme but legal scale: modulus 1e-20 .. 1e20, sometimes with a phase."""
    c = 10.0 ** rng.uniform(-20, 20)
    return c * rng.choice((1, 1, -1, 1j, np.exp(0.7j)))


def scale_gate(gate, c):
    """the same Gate with its operator multiplied by c (first tensor of a tensor list / c * MPO)."""
    G = gate.G
    if isinstance(G, (tuple, list)):
        return gate._replace(G=type(G)([c * G[0]] + list(G[1:])))
    return gate._replace(G=c * G)


def odd_mpo_probe(ctx, F, rng, g, fr, psi, x):
    """PROBE (recorded, not judged): an MPO gate of odd fermionic parity.  apply_gate_ accepts it, the charge ends up on the
    first site tensor; how to_tensor() orders that charge w.r.t. the sites is not documented, and no string is put on
    sites outside the path, so agreement with the Jordan-Wigner operator is only recorded."""
    import yastn.tn.fpeps as fpeps
    import yastn.tn.mps as mps
    o, loc = F.cat, F.loc
    odd = [n for n in o if F.charge_of(n) is not None and loc.string(F.charge_of(n)) is not None and not np.iscomplexobj(F.mat[n])]
    if not odd:
        return
    K = rng.randint(1, min(3, fr.N))
    path = PG.rand_path(rng, g, K)
    if path is None:
        return
    path = [tuple(s) for s in path]
    a = rng.choice(odd)
    j = rng.randrange(K)
    terms = [mps.Hterm(1.0, [j], [o[a]])]
    if K > 1:
        terms.append(mps.Hterm(0.7, [j, rng.choice([i for i in range(K) if i != j])], [o[a], o[rng.choice(F.even[:-1])]]))
    try:
        op = mps.generate_mpo(o["I"], terms, N=K)
        M = R.mpo_chain_dense(loc, op)
        p2 = psi.shallow_copy()
        p2.apply_gate_(fpeps.Gate(G=op, sites=tuple(path)))
        y = fr.dense(p2)
    except Exception as e:
        ctx.count("probe:odd_mpo_gate:" + type(e).__name__)
        return
    ref = R.apply_chain(loc, x, M, [fr.position(s) for s in path], fr.sys_axes)
    sc = max(float(np.abs(ref).max()), 1e-300)
    first = min(fr.position(s) for s in path) == 0
    if float(np.abs(ref).max()) < 1e-10 * max(float(np.abs(x).max()), 1e-300):
        cls = "zero-result"
    elif float(np.abs(y - ref).max()) < 1e-9 * sc:
        cls = "agree"
    elif float(np.abs(y + ref).max()) < 1e-9 * sc:
        cls = "global-sign"
    else:
        cls = "mismatch"
    ctx.count("odd_mpo_probes")
    ctx.count("probe:odd_mpo_gate:" + cls + (":path-starts-at-first-site" if first else ":sites-before-path"))


def case_circuit(ctx, idx, rng, nprng):
    F, dims, bd, sk = pick_family_lattice(rng, lattices=CIRCUIT_LATTICES)
    g = PG.lattice(dims, bd)
    psi, fr, exp0 = make_state(F, rng, nprng, g, sk)
    scaled = []
    if rng.random() < 0.25:                      # extreme scales on single site tensors
        for s in rng.sample(list(g.sites()), min(fr.N, rng.randint(1, 2))):
            cs = big_scalar(rng)
            psi[s] = cs * psi[s]
            scaled.append([list(s), abs(cs)])
            if exp0 is not None:
                exp0 = exp0 * cs
        ctx.count("circuits_with_scaled_site_tensors")
    x = fr.dense(psi)
    base = {"kind": "circuit", "family": [F.cls, F.sym], "lattice": [list(dims), bd], "state": sk, "scaled_sites": scaled}
    if dims == (1, 1):
        ctx.count("circuits_on_1x1")
    if exp0 is not None:
        ctx.count("product_state_checks")
        tol = 16 * EPS * fr.N * max(float(np.abs(exp0).max()), 1e-300)
        judge(ctx, "to_tensor:product", "value:to_tensor:product-state:" + ("purif" if sk == "purif" else "vec"), x, exp0, tol,
              f"to_tensor() of a product state on {dims} {bd} ({F.cls},{F.sym}) vs Kronecker product", base)
    if float(np.abs(x).max()) < 1e-8 * state_scale(psi):      # symmetry-forbidden (numerically zero) state
        raise CaseSkip
    nsteps = rng.randint(2, 5)
    steps = []
    for _ in range(nsteps):
        gd = draw_gate(F, rng, nprng, g, fr, psi)
        if gd is None:
            continue
        if gd["aux"] and PG.predicted_cost(psi, gd["aux"], gd["path"]) > 2 ** 21:
            ctx.count("gates_skipped_bond_budget")
            break
        r = rng.random()
        if r < 0.15:                             # the same gate at an extreme scale
            cs = big_scalar(rng)
            gd["gate"], gd["M"], gd["src"] = scale_gate(gd["gate"], cs), cs * np.asarray(gd["M"]), gd["src"] + "*big"
            ctx.count("scaled_gates")
        elif r < 0.19:                           # zero operator (zero-valued blocks): the state must become exactly zero
            gd["gate"], gd["M"], gd["src"] = scale_gate(gd["gate"], 0.0), 0.0 * np.asarray(gd["M"]), gd["src"] + "*0"
            ctx.count("zero_gates")
        psi.apply_gate_(gd["gate"])
        y = fr.dense(psi)
        ref = R.apply_chain(F.loc, x, gd["M"], gd["positions"], fr.sys_axes)
        scale = max(float(np.abs(ref).max()), float(np.linalg.norm(np.asarray(gd["M"]).ravel()) * np.abs(x).max()), 1e-300)
        tol = max(4000 * EPS * scale * (1 + len(gd["path"])), 200 * EPS * state_scale(psi))
        seam = any(PG.is_seam(g, a, b) for a, b in zip(gd["path"][:-1], gd["path"][1:]))
        dcls = gd["dirs"][0] if gd["label"] == "nn" else ""
        key = "value:apply_gate_:" + gd["label"] + (":" + dcls if dcls else "") + (":seam" if seam else "") + \
              (":anc" if fr.has_anc else ":noanc")
        st = {"label": gd["label"], "source": gd["src"], "sites": [list(s) for s in gd["path"]], "dirs": gd["dirs"], "seam": seam}
        judge(ctx, "apply_gate_:" + gd["label"], key, y, ref, tol,
              f"apply_gate_ {gd['label']} gate ({gd['src']}) along {gd['path']} dirs {gd['dirs']} on {dims} {bd} ({F.cls},{F.sym},{sk})",
              dict(base, step=st, previous_steps=steps))
        ctx.count("gate_applications")
        ctx.count("apply:" + gd["label"])
        ctx.count("apply_src:" + gd["src"])
        if gd["src"] in ("mpo_object", "generate_mpo", "mpo1"):
            ctx.count("apply:mpo_object")
        if seam:
            ctx.count("apply:seam")
        for d_ in gd["dirs"]:
            ctx.count("dir:" + d_)
        if order_sensitive(F, gd["M"], gd["positions"]):
            ctx.count("order_sensitive_applications")
        steps.append(st)
        x = y
        if gd["src"].endswith("*0"):
            break
    if F.loc.any_fermionic and rng.random() < 0.3 and np.any(x):
        odd_mpo_probe(ctx, F, rng, g, fr, psi, x)
    ctx.count("circuits")
    if sk in ("purif", "randf"):
        ctx.count("purification_circuits")
    if not fr.has_anc:
        ctx.count("ancilla_free_circuits")
    if F.fermionic:
        ctx.count("fermionic_cases")
    sig = ("circuit", F.cls, F.sym, dims, bd, sk,
           tuple((s["label"], s["source"], len(s["sites"]), tuple(s["dirs"]), s["seam"]) for s in steps))
    ctx.case(sig, nontrivial(x) and len(steps) > 0, dict(base, steps=steps))


# ------------------------------------------------------------------------------------------------ kind: dpt

def rand_leg(F, rng, s, nsec=2, dmax=2):
    return PG.virt_leg(F, rng, s, nsec=rng.randint(1, nsec + 1), dmax=dmax)


def case_dpt(ctx, idx, rng, nprng):
    import yastn
    import yastn.tn.fpeps as fpeps
    pair = rng.choice(((0, 1), (1, 2), (2, 3), (3, 0)))
    flip = rng.random() < 0.5
    tr = rng.choice(AT)
    F = PG.fam(*(rng.choice(PG.FERMIONIC) if rng.random() < 0.7 else rng.choice(PG.FAMILIES)))
    loc, cfg = F.loc, F.cfg
    fused = rng.random() < 0.5
    same = rng.random() < 0.4
    dt = rng.choice(("complex128", "complex128", "float64"))

    def peps_tensor():
        legs = [rand_leg(F, rng, s) for s in (-1, 1, 1, -1)] + [loc.leg]
        if fused:
            legs.append(anc)
        F.seed_backend(rng)
        A = yastn.rand(cfg, legs=legs, dtype=dt)
        return A.fuse_legs(axes=(0, 1, 2, 3, (4, 5))) if fused else A

    anc = None
    if fused:
        anc = loc.leg.conj() if rng.random() < 0.4 else rand_leg(F, rng, -1, nsec=1, dmax=2)
    ket = peps_tensor()
    bra = ket if same else peps_tensor()
    T = fpeps.DoublePepsTensor(bra=bra, ket=ket)
    opn = rng.choice(list(F.cat) + [None, None])
    if opn is not None:
        T.set_operator_(F.cat[opn])
        if rng.random() < 0.2:
            T.set_operator_(F.cat[rng.choice(list(F.cat))], reset=False)
    swaps = []
    for _ in range(rng.choice((0, 0, 1, 2, 3))):
        ch = loc.diff(rng.randrange(F.d), rng.randrange(F.d))
        ax = rng.sample(["b0", "b1", "b2", "b3", "b4", "k0", "k1", "k2", "k3", "k4"], rng.randint(1, 3))
        T.add_charge_swaps_(ch, ax)
        swaps.append([list(ch), ax])
    T1 = T.transpose(axes=tr)
    f1 = T1.fuse_layers()
    in_scale = float(ket.norm() * bra.norm()) * (max(1.0, float(T.op.norm())) if T.op is not None else 1.0)
    # transposition commutes with fusing the layers (pure data movement)
    f0t = T.fuse_layers().transpose(axes=tr)
    lu = [yastn.legs_union(a, b) for a, b in zip(f1.get_legs(), f0t.get_legs())]
    if not np.array_equal(f1.to_numpy(legs=dict(enumerate(lu))), f0t.to_numpy(legs=dict(enumerate(lu)))):
        ctx.violation("dpt:transpose-vs-fuse_layers", f"T.transpose({tr}).fuse_layers() != T.fuse_layers().transpose({tr})")
    ctx.count("dpt_transpose_checks")
    lfs = T1.get_legs()
    pr = pair[::-1] if flip else pair
    nextra = rng.randint(1, 3)
    vl = [lfs[pr[0]].conj(), lfs[pr[1]].conj()] + [rand_leg(F, rng, rng.choice((-1, 1))) for _ in range(nextra)]
    perm = list(range(len(vl)))
    rng.shuffle(perm)
    axb = (perm.index(0), perm.index(1))
    nv = loc.diff(rng.randrange(F.d), rng.randrange(F.d)) if rng.random() < 0.6 else loc.zero
    F.seed_backend(rng)
    v = yastn.rand(cfg, legs=[vl[p] for p in perm], n=nv if F.sym != "dense" else None, dtype=dt)
    # canonical (t,l,b,r) pair of the contracted legs of the underlying tensor -> corner name
    ia = tuple(sorted(T1.trans[a] for a in pr))
    corner = CORNER[ia]
    base = {"kind": "dpt", "family": [F.cls, F.sym], "corner": corner, "axes_self": list(pr), "axes_b": list(axb),
            "transpose": list(tr), "operator": opn, "swaps": swaps, "fused_physical": fused, "bra_is_ket": same,
            "vector_charge": list(nv), "extra_legs": nextra}
    nonzero = False
    for mode in ("method", "function", "function-reversed", "method-reverse-flag"):
        if mode == "method":
            a, b = T1.tensordot(v, axes=(pr, axb)), f1.tensordot(v, axes=(pr, axb))
        elif mode == "function":
            a, b = yastn.tensordot(T1, v, axes=(pr, axb)), yastn.tensordot(f1, v, axes=(pr, axb))
        elif mode == "function-reversed":
            a, b = yastn.tensordot(v, T1, axes=(axb, pr)), yastn.tensordot(v, f1, axes=(axb, pr))
        else:
            a, b = T1.tensordot(v, axes=(axb, pr), reverse=True), yastn.tensordot(v, f1, axes=(axb, pr))
        rev = mode in ("function-reversed", "method-reverse-flag")
        key = "dpt:tensordot-vs-fuse_layers:" + corner + (":b-self" if rev else ":self-b")
        ctx.count("dpt_comparisons")
        ctx.count(("dpt_corner_reverse:" if rev else "dpt_corner:") + corner)
        if a.ndim != b.ndim or tuple(a.get_signature()) != tuple(b.get_signature()):
            ctx.violation(key + ":legs", f"lazy result rank/signature {a.ndim},{a.get_signature()} vs fused {b.ndim},{b.get_signature()}", base)
            continue
        if tuple(a.n) != tuple(b.n):
            ctx.violation(key + ":charge", f"lazy result charge {a.n} vs fused {b.n}", dict(base, mode=mode))
            continue
        try:
            lu = [yastn.legs_union(p, q) for p, q in zip(a.get_legs(), b.get_legs())]
        except yastn.YastnError as e:
            ctx.violation(key + ":legs", f"result legs of lazy and fused contraction are incompatible: {e}", dict(base, mode=mode))
            continue
        xa = np.asarray(a.to_numpy(legs=dict(enumerate(lu))))
        xb = np.asarray(b.to_numpy(legs=dict(enumerate(lu))))
        scale = max(float(np.abs(xb).max()) if xb.size else 0.0, in_scale * float(v.norm()), 1e-300)
        judge(ctx, "dpt:tensordot", key, xa, xb, 500 * EPS * scale,
              f"DoublePepsTensor.tensordot ({mode}) vs fuse_layers() on corner {corner}", dict(base, mode=mode))
        if np.any(xb):
            nonzero = True
            ctx.count("dpt_nonzero_results")
    if opn is not None:
        ctx.count("dpt_with_operator")
    if swaps:
        ctx.count("dpt_with_swaps")
    if F.fermionic:
        ctx.count("fermionic_cases")
    sig = ("dpt", F.cls, F.sym, corner, tuple(pr), tr, opn is not None, F.charge_of(opn) != loc.zero if opn else False,
           tuple(sorted(a for s in swaps for a in s[1])), fused, same, nv != loc.zero, nextra)
    ctx.case(sig, nonzero, base)


# ------------------------------------------------------------------------------------------------ kind: add

ADD_LATTICES = (((1, 1), "obc"),) + PG.LATTICES


def case_add(ctx, idx, rng, nprng):
    import yastn.tn.fpeps as fpeps
    for _ in range(200):
        F = PG.fam(*(rng.choice(PG.FAMILIES) if rng.random() < 0.6 else rng.choice(PG.FERMIONIC)))
        sk = rng.choice(("vec", "purif", "randa", "randf", "randp"))
        dims, bd = rng.choice(ADD_LATTICES)
        if dims[0] * dims[1] <= PG.max_sites(F, sk in ("purif", "randf")):
            break
    else:
        raise CaseSkip
    g = PG.lattice(dims, bd)
    nst = rng.choice((2, 2, 3))
    states, hist = [], []
    if sk in ("vec", "purif"):
        psi0, fr, _ = make_state(F, rng, nprng, g, sk)
        for k in range(nst):
            p = psi0.shallow_copy()
            h = []
            for _ in range(rng.randint(0 if k else 1, 2)):
                gd = draw_gate(F, rng, nprng, g, fr, p)
                if gd is None or (gd["aux"] and PG.predicted_cost(p, gd["aux"], gd["path"]) > 2 ** 18):
                    continue
                p.apply_gate_(gd["gate"])
                h.append([gd["label"], gd["src"]])
            states.append(p)
            hist.append(h)
    else:
        anc = {"randa": "charged", "randf": "full", "randp": None}[sk]
        first = PG.random_peps(F, rng, g, anc=anc, nsec=rng.choice((1, 2, 3)), dmax=rng.choice((1, 2)))
        states, hist = [first], [["random"]]
        for k in range(nst - 1):
            if anc == "charged":      # D=1 charged ancillas must coincide for the sum to be meaningful (to_tensor docstring)
                p = _with_ancillas_of(F, rng, g, first)
            else:
                p = PG.random_peps(F, rng, g, anc=anc, nsec=rng.choice((1, 2, 3)), dmax=rng.choice((1, 2)))
            states.append(p)
            hist.append(["random"])
        fr = R.PepsFrame(F.loc, first)
    xs = [fr.dense(p) for p in states]
    use_amp = rng.random() < 0.6 or nst > 2
    if use_amp:
        amps = [PG.rand_scalar(rng)[0] for _ in range(nst)]
        if rng.random() < 0.25:
            amps = [a * 10.0 ** rng.uniform(-20, 20) for a in amps]
            ctx.count("add_with_extreme_amplitudes")
        if rng.random() < 0.2:
            amps[rng.randrange(nst)] = 0.0
        tot = fpeps.add(*states, amplitudes=amps)
        ctx.count("add_with_amplitudes")
    else:
        amps = [1.0] * nst
        tot = states[0] + states[1]
        for p in states[2:]:
            tot = tot + p
    exp = sum(a * x for a, x in zip(amps, xs))
    got = fr.dense(tot)
    scale = max(sum(abs(a) * float(np.abs(x).max()) for a, x in zip(amps, xs)),
                sum(abs(a) * state_scale(p) for a, p in zip(amps, states)), 1e-300)
    single = dims == (1, 1)
    base = {"kind": "add", "family": [F.cls, F.sym], "lattice": [list(dims), bd], "state": sk, "summands": nst,
            "amplitudes": amps if use_amp else None, "histories": hist}
    judge(ctx, "add:1x1" if single else "add", "value:add" + (":1x1-lattice" if single else ""), got, exp, 64 * EPS * nst * scale,
          f"{'add(amplitudes)' if use_amp else '__add__'} of {nst} PEPS on {dims} {bd} ({F.cls},{F.sym},{sk})", base)
    ctx.count("add_checks")
    ctx.count("add_lattice:" + bd + ("_1x1" if single else ""))
    if F.fermionic:
        ctx.count("fermionic_cases")
    ctx.case(("add", F.cls, F.sym, dims, bd, sk, nst, use_amp, tuple(tuple(map(tuple, h)) if h and isinstance(h[0], list) else tuple(h) for h in hist)),
             nontrivial(exp), base)


def _with_ancillas_of(F, rng, g, ref):
    """independent random PEPS whose D=1 charged ancilla legs equal those of ``ref`` (same charge offsets)."""
    import yastn
    p = PG.random_peps(F, rng, g, anc=None, nsec=rng.choice((1, 2, 3)), dmax=rng.choice((1, 2)))
    out = type(ref)(g)
    for s in g.sites():
        _, la = ref[s].get_legs(axes=4).unfuse_leg()
        legs = list(p[s].get_legs()) + [la]
        F.seed_backend(rng)
        A = yastn.rand(F.cfg, legs=legs, dtype="complex128")
        out[s] = A.fuse_legs(axes=(0, 1, 2, 3, (4, 5)))
    return out


# ------------------------------------------------------------------------------------------------ driver

KINDS = (case_gate, case_circuit, case_dpt, case_add)


def run_case(ctx, idx):
    rng, nprng = ctx.rng(idx), ctx.nprng(idx)
    KINDS[(idx + idx // 16) % 4](ctx, idx, rng, nprng)      # every shard (8 or 16) sees all four kinds


def canaries(ctx):
    """Corrupted observations must be flagged by the same judging code that decides the real cases."""
    import random
    import yastn.tn.fpeps as fpeps
    rng, nprng = random.Random(11), np.random.default_rng(11)
    sub = type(ctx)(ctx.prop, ctx.tier, ctx.seed)
    F = PG.fam("SpinlessFermions", "U1")
    o, m = F.cat, F.mat
    # 1. a hopping gate whose off-diagonal element has the wrong sign (the string of c on site 0 forgotten)
    gate = fpeps.gates.gate_nn_hopping(0.7, 0.3, o["I"], o["c"], o["cp"])
    got = R.chain_matrix(R.gate_chain_dense(F.loc, gate.G))
    H = -0.7 * (two_site(F, [(m["cp"], 0), (m["c"], 1)]) + two_site(F, [(m["cp"], 1), (m["c"], 0)]))
    exp = sla.expm(-0.3 * H)
    bad = got.copy()
    bad[1, 2] *= -1
    judge(sub, "canary", "value:gate:hopping", bad, exp, 20000 * EPS, "canary")
    ctx.canary("gate-sign", len(sub.violations) == 1)
    ok = judge(sub, "canary", "value:gate:hopping", got, exp, 20000 * EPS, "canary")
    ctx.canary("gate-clean-passes", ok and len(sub.violations) == 1)
    # 2. the oracle must distinguish a gate applied with and without the string of an intermediate occupied site
    g = PG.lattice((3, 1), "obc")
    psi = fpeps.product_peps(g, {(0, 0): F.ops.vec_n(1), (1, 0): F.ops.vec_n(1), (2, 0): F.ops.vec_n(0)})
    fr = R.PepsFrame(F.loc, psi)
    x = fr.dense(psi)
    gt = fpeps.gates.gate_nn_hopping(0.9, 0.5, o["I"], o["c"], o["cp"], ((0, 0), (1, 0), (2, 0)))
    M = R.gate_chain_dense(F.loc, gt.G)
    ref = R.apply_chain(F.loc, x, M, [0, 2], fr.sys_axes)
    nostring = np.moveaxis(np.tensordot(R.chain_matrix(M).reshape(2, 2, 2, 2), x, axes=((2, 3), (0, 4))), (0, 1), (0, 4))
    n0 = len(sub.violations)
    judge(sub, "canary", "value:apply_gate_:distant:anc", nostring, ref, 4000 * EPS, "canary")
    ctx.canary("missing-string", len(sub.violations) == n0 + 1)
    psi.apply_gate_(gt)
    n0 = len(sub.violations)
    judge(sub, "canary", "value:apply_gate_:distant:anc", fr.dense(psi), ref, 4000 * EPS, "canary")
    ctx.canary("distant-clean-passes", len(sub.violations) == n0)
    # 3. string model against the independent reordering model
    worst = 0.0
    for cls, sym in (("SpinlessFermions", "Z2"), ("SpinfulFermions", "U1xU1xZ2"), ("SpinfulFermions", "U1xU1")):
        e, s = R.selftest(PG.fam(cls, sym).loc, nprng, N=3, K=2)
        worst = max(worst, e / max(s, 1e-300))
    ctx.canary("string-vs-reordering-model", worst < 1e-13)
    # 4. a flipped element in a sum of states
    n0 = len(sub.violations)
    y = x.copy()
    y[tuple(np.argwhere(y != 0)[0])] *= 1.000001
    judge(sub, "canary", "value:add", y, x, 64 * EPS * 2, "canary")
    ctx.canary("add-perturbed", len(sub.violations) == n0 + 1)


def finalize(cov, merged):
    c = merged["counters"]
    cov["gate_kinds"] = {k[5:]: int(v) for k, v in sorted(c.items()) if k.startswith("gate:")}
    cov["gate_sources_applied"] = {k[10:]: int(v) for k, v in sorted(c.items()) if k.startswith("apply_src:")}
    cov["bond_orientations"] = {k[4:]: int(v) for k, v in sorted(c.items()) if k.startswith("dir:")}
    cov["dpt_corners"] = {k: int(v) for k, v in sorted(c.items()) if k.startswith("dpt_corner")}
    cov["not_judged"] = {k: int(v) for k, v in sorted(c.items()) if k.startswith("probe:")}
